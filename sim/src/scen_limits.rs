//! C20 — `limits`: the process is the node that may crash. Every case runs in its own
//! child process, on a thread whose stack size the simulator chooses, in one of two
//! builds (arithmetic checks on / off). The parent observes the exit status.

use crate::harness::{guard, RunOut, Scenario, Stats, Viol};
use crate::model;
use crate::mval::{self, MVal};
use crate::ops::{self, AIdx, KP, MIdx, MPath, Op, SelApi, Step};
use crate::rng::{Fnv, Rng};
use jsonb::jsonpath as jp;
use serde_json::{json, Value as J};
use std::borrow::Cow;
use std::collections::BTreeMap;

pub const DEPTH_OPS: &[&str] = &[
    "parse_value",
    "drop_value",
    "to_vec",
    "from_slice",
    "parse_jsonb",
    "to_string",
    "to_pretty_string",
    "compare",
    "get_by_path_root",
    "get_by_path_deep",
    "get_by_path_wildcards",
    "path_exists_deep",
    // a path as deep as the document through every other selection entry point and mode
    "get_by_path_first_deep",
    "get_by_path_array_deep",
    "select_all_deep",
    "select_first_deep",
    "select_array_deep",
    "select_first_wildcards",
    "parse_json_path_deep",
    "convert_to_comparable",
    "delete_by_index_deep",
    "array_insert_deep",
    "delete_by_keypath_deep",
    "get_by_keypath_deep",
    // byte-level functions that look at the outer container only (or walk with an explicit queue) today
    "traverse_check_string",
    "traverse_check_string_reentrant",
    "get_by_index_deep",
    "get_by_name_deep",
    "object_keys_array_values_each",
    "concat_deep",
    "array_distinct_deep",
    "exists_keys_deep",
    "inspect_deep",
    "type_of_text_deep",
    // argument combinations that are decided from the outer container (or spliced as raw bytes) today
    "object_insert_mixed_deep",
    "array_insert_mixed_deep",
    "compare_keys_differ_deep",
    "compare_first_differs_deep",
    "contains_size_guard_deep",
];
pub const SHAPES: &[&str] = &["arrays", "objects", "alternating"];
pub const LADDER: &[u64] = &[1, 2, 10, 100, 1_000, 10_000, 100_000, 300_000];
pub const STACKS: &[u64] = &[8 << 20, 2 << 20];
/// A thread given 1 GiB of stack (a host that sizes its worker stacks for deep documents): no operation runs out of
/// stack at these depths on it, so what is left to go wrong is arithmetic on the nesting level itself -- a 16-bit
/// level / indent counter passes 32,767 resp. 65,535 here.
pub const BIG_STACK: u64 = 1 << 30;
pub const BIG_STACK_DEPTHS: &[u64] = &[33_000, 66_000];
/// dev = cargo's default dev profile (unoptimised, overflow checks, debug assertions: what `cargo build` and
/// `cargo test` give a user); checked = optimised with the same checks; shipped = release defaults.
pub const BUILDS: &[&str] = &["dev", "checked", "shipped"];
/// aborting = release defaults with `panic = "abort"`: `catch_unwind` does nothing there, so a panic raised (and even
/// one swallowed) inside the library is the death of the process. Depths stay well below every recorded
/// stack-exhaustion depth of the optimised builds, so that a death in this build is never the known finding.
pub const ABORT_BUILD: &str = "aborting";
/// The constrained node: the shipped build in a process whose address space is capped at what it has mapped plus
/// 192 MiB when the case starts (`RLIMIT_AS`): a container that cannot hand out another large mapping, so a big
/// allocation, and the creation of a thread with a big stack, FAIL instead of being served lazily.
pub const CONSTRAINED_BUILD: &str = "shipped+aslimit";
pub const CONSTRAINED_DEPTHS: &[u64] = &[2_000, 100_000];
const AS_HEADROOM: u64 = 192 << 20;

fn base_build(build: &str) -> &str {
    build.split('+').next().unwrap_or(build)
}
pub const ABORT_DEPTHS: &[u64] = &[1, 100, 600, 2_000];
/// The memory-limited node: a single allocation request above this (8x for the quadratic pretty printer) is what
/// `Vec::with_capacity` turns into an abort where the allocator can refuse it (container limit, `ulimit -v`, 32 bit).
/// The accounting allocator serves the request (untouched virtual memory) and records it.
pub const ALLOC_LIMIT: usize = 1 << 30;

pub const INDEX_OPS: &[&str] = &[
    "delete_by_index",
    "array_insert",
    "delete_by_keypath",
    "get_by_keypath",
    "path_index",
    "path_last_minus",
    "path_last_plus",
    "path_slice",
    "path_slice_idx_idx",
    "path_slice_last_idx",
    "path_slice_last_last",
    "path_text_index",
    "path_text_last_minus",
    "path_text_last_plus",
    "path_text_slice",
    "path_text_slice_idx_idx",
    "keypath_text",
    "get_by_index_extreme",
    // extreme VALUES rather than positions: NaN, the infinities, negative zero, the ends of the integer ranges
    "special_compare",
    "special_render",
    "special_comparable",
    "special_decode_eq",
    "special_contains",
    "special_filter",
    "special_sets",
    "special_casts",
    "special_wide",
    "special_path_text",
];

/// rendering with indentation is quadratic in depth; keep the output below ~1 GB
const PRETTY_MAX_DEPTH: u64 = 20_000;

#[derive(Clone, Debug, PartialEq)]
pub enum Case {
    /// the API sweep: public function `func` with a deep document in the argument position(s) and format(s) `variant` names
    Api { func: String, variant: String, shape: String, depth: u64, stack: u64, build: String },
    Depth { op: String, shape: String, depth: u64, stack: u64, build: String },
    Index { op: String, index: i32, index2: i32, len: usize, text: bool, build: String },
}

pub struct Limits {
    /// per known finding: (build, stack MiB) -> the smallest crashing depth measured by `sim limits-floors`
    pub floors: BTreeMap<String, BTreeMap<(String, u64), u64>>,
    /// keys of all C20 findings with status known
    pub listed: std::collections::BTreeSet<String>,
    /// API-sweep variants that die of stack exhaustion on the unchanged tree: key -> builds (limits_baseline.json)
    pub baseline: BTreeMap<String, Vec<String>>,
}

/// A crash is covered by its recorded finding only from this fraction of the recorded depth on.
const COVER_NUM: u64 = 60;
/// Probe cases run at this fraction of the recorded depth and must complete.
const PROBE_NUM: u64 = 55;

impl Limits {
    pub fn new() -> Limits {
        let mut floors = BTreeMap::new();
        let mut listed = std::collections::BTreeSet::new();
        let path = format!("{}/known_findings.json", crate::harness::VERIF_DIR);
        if let Ok(txt) = std::fs::read_to_string(path) {
            if let Ok(j) = serde_json::from_str::<J>(&txt) {
                for f in j["findings"].as_array().cloned().unwrap_or_default() {
                    if f["property"] == "C20" && f["status"] == "known" {
                        if let Some(k) = f["key"].as_str() {
                            listed.insert(k.to_string());
                        }
                        if let (Some(k), Some(d)) = (f["key"].as_str(), f["min_crash_depth"].as_object()) {
                            let mut per = BTreeMap::new();
                            for (build, stacks) in d {
                                for (mib, depth) in stacks.as_object().cloned().unwrap_or_default() {
                                    if let (Ok(m), Some(v)) = (mib.parse::<u64>(), depth.as_u64()) {
                                        per.insert((build.clone(), m), v);
                                    }
                                }
                            }
                            floors.insert(k.to_string(), per);
                        }
                    }
                }
            }
        }
        let mut baseline = BTreeMap::new();
        if let Ok(txt) = std::fs::read_to_string(format!("{}/limits_baseline.json", crate::harness::VERIF_DIR)) {
            if let Ok(j) = serde_json::from_str::<J>(&txt) {
                for (k, v) in j["crashing_today"].as_object().cloned().unwrap_or_default() {
                    baseline.insert(k, v.as_array().map(|a| a.iter().filter_map(|x| x.as_str().map(|s| s.to_string())).collect()).unwrap_or_default());
                }
            }
        }
        Limits { floors, listed, baseline }
    }

    /// A recorded finding covers a crash only at or beyond 60 % of the smallest crashing depth recorded
    /// for the same build and stack budget; an earlier crash is a new violation.
    fn covered(&self, key: &str, build: &str, stack: u64, depth: u64) -> bool {
        match self.floors.get(key).and_then(|per| per.get(&(base_build(build).to_string(), stack >> 20))) {
            Some(floor) => depth * 100 >= *floor * COVER_NUM,
            None => false,
        }
    }

    /// The API sweep: every function x variant x shape x build at one depth and stack budget.
    fn api_plan() -> Vec<Case> {
        let mut v = vec![];
        for (func, binary, _) in API_FUNCS {
            for variant in api_variants(*binary, func) {
                for shape in API_SHAPES {
                    for build in API_BUILDS {
                        v.push(Case::Api { func: func.to_string(), variant: variant.to_string(), shape: shape.to_string(), depth: API_DEPTH, stack: API_STACK, build: build.to_string() });
                    }
                }
            }
        }
        v
    }

    /// Probe cases: just below every recorded crashing depth the operation must still complete.
    fn probes(&self) -> Vec<Case> {
        let mut v = vec![];
        for (key, per) in &self.floors {
            let mut parts = key.splitn(3, ':');
            let (_, op, shape) = (parts.next(), parts.next().unwrap_or(""), parts.next().unwrap_or(""));
            for ((build, mib), floor) in per {
                let depth = (*floor * PROBE_NUM / 100).max(1);
                v.push(Case::Depth { op: op.to_string(), shape: shape.to_string(), depth, stack: *mib << 20, build: build.clone() });
            }
        }
        v
    }
}

// ---------------------------------------------------------------------------
// child side: build the input iteratively, run one operation, report
// ---------------------------------------------------------------------------

fn level_is_object(shape: &str, level: u64) -> bool {
    match shape {
        "arrays" => false,
        "objects" => true,
        _ => level % 2 == 1,
    }
}

pub fn deep_text(shape: &str, depth: u64) -> Vec<u8> {
    let mut s = Vec::with_capacity(depth as usize * 7 + 2);
    for l in 0..depth {
        if level_is_object(shape, l) {
            if l + 1 < depth {
                s.extend_from_slice(b"{\"a\":");
            } else {
                s.push(b'{');
            }
        } else {
            s.push(b'[');
        }
    }
    for l in (0..depth).rev() {
        s.push(if level_is_object(shape, l) { b'}' } else { b']' });
    }
    s
}

/// Canonical JSONB for `depth` nested containers (innermost empty), built without recursion.
pub fn deep_jsonb(shape: &str, depth: u64) -> Vec<u8> {
    let d = depth as usize;
    let mut size = vec![0u64; d];
    size[d - 1] = 4;
    for l in (0..d - 1).rev() {
        size[l] = size[l + 1] + if level_is_object(shape, l as u64) { 4 + 8 + 1 } else { 4 + 4 };
    }
    let mut out = Vec::with_capacity(size[0] as usize);
    for l in 0..d {
        let obj = level_is_object(shape, l as u64);
        if l == d - 1 {
            out.extend_from_slice(&(if obj { 0x4000_0000u32 } else { 0x8000_0000u32 }).to_be_bytes());
        } else if obj {
            out.extend_from_slice(&0x4000_0001u32.to_be_bytes());
            out.extend_from_slice(&0x1000_0001u32.to_be_bytes());
            out.extend_from_slice(&(0x5000_0000u32 | size[l + 1] as u32).to_be_bytes());
            out.push(b'a');
        } else {
            out.extend_from_slice(&0x8000_0001u32.to_be_bytes());
            out.extend_from_slice(&(0x5000_0000u32 | size[l + 1] as u32).to_be_bytes());
        }
    }
    out
}

pub fn deep_value(shape: &str, depth: u64) -> jsonb::Value<'static> {
    use jsonb::Value;
    let mut v = if level_is_object(shape, depth - 1) { Value::Object(Default::default()) } else { Value::Array(vec![]) };
    for l in (0..depth - 1).rev() {
        v = if level_is_object(shape, l) {
            let mut m = jsonb::Object::new();
            m.insert("a".to_string(), v);
            Value::Object(m)
        } else {
            Value::Array(vec![v])
        };
    }
    v
}

/// Takes a deep tree apart without recursion (so that only the operation under test can recurse).
pub fn dismantle(v: jsonb::Value<'_>) {
    use jsonb::Value;
    let mut work = vec![v];
    while let Some(x) = work.pop() {
        match x {
            Value::Array(xs) => work.extend(xs),
            Value::Object(m) => work.extend(m.into_values()),
            _ => {}
        }
    }
}

fn deep_path(shape: &str, depth: u64, wildcards: bool) -> jp::JsonPath<'static> {
    let mut paths = Vec::with_capacity(depth as usize + 1);
    paths.push(jp::Path::Root);
    for l in 0..depth {
        if wildcards {
            paths.push(if level_is_object(shape, l) { jp::Path::DotWildcard } else { jp::Path::BracketWildcard });
        } else if level_is_object(shape, l) {
            paths.push(jp::Path::DotField(Cow::Borrowed("a")));
        } else {
            paths.push(jp::Path::ArrayIndices(vec![jp::ArrayIndex::Index(jp::Index::Index(0))]));
        }
    }
    // the innermost container is empty: the last step selects nothing, the one before it the innermost container
    paths.pop();
    jp::JsonPath { paths }
}

fn deep_path_text(shape: &str, depth: u64) -> Vec<u8> {
    let mut s = b"$".to_vec();
    for l in 0..depth {
        if level_is_object(shape, l) {
            s.extend_from_slice(b".a");
        } else {
            s.extend_from_slice(b"[0]");
        }
    }
    s
}

fn res_name<T>(r: Result<T, jsonb::Error>) -> String {
    match r {
        Ok(_) => "completed".into(),
        Err(e) => format!("error:{}", ops::err_name(&e)),
    }
}

fn run_depth_op(op: &str, shape: &str, depth: u64) -> String {
    match op {
        "parse_value" => {
            let text = deep_text(shape, depth);
            match jsonb::parse_value(&text) {
                Ok(v) => {
                    dismantle(v);
                    "completed".into()
                }
                Err(e) => format!("error:{}", ops::err_name(&e)),
            }
        }
        "drop_value" => {
            let v = deep_value(shape, depth);
            drop(v);
            "completed".into()
        }
        "to_vec" => {
            let v = deep_value(shape, depth);
            let b = v.to_vec();
            dismantle(v);
            if b.is_empty() { "error:empty".into() } else { "completed".into() }
        }
        "from_slice" | "parse_jsonb" => {
            let b = deep_jsonb(shape, depth);
            let r = if op == "from_slice" { jsonb::from_slice(&b) } else { jsonb::parse_jsonb(&b) };
            match r {
                Ok(v) => {
                    dismantle(v);
                    "completed".into()
                }
                Err(e) => format!("error:{}", ops::err_name(&e)),
            }
        }
        "to_string" => {
            let b = deep_jsonb(shape, depth);
            let s = jsonb::to_string(&b);
            if s.len() as u64 >= 2 * depth { "completed".into() } else { format!("error:rendered_{}_bytes", s.len()) }
        }
        "to_pretty_string" => {
            let b = deep_jsonb(shape, depth);
            let s = jsonb::to_pretty_string(&b);
            if s.len() as u64 >= 2 * depth { "completed".into() } else { format!("error:rendered_{}_bytes", s.len()) }
        }
        "compare" => {
            let a = deep_jsonb(shape, depth);
            let b = a.clone();
            res_name(jsonb::compare(&a, &b))
        }
        "get_by_path_root" | "get_by_path_deep" | "get_by_path_wildcards" => {
            let b = deep_jsonb(shape, depth);
            let p = match op {
                "get_by_path_root" => jp::JsonPath { paths: vec![jp::Path::Root] },
                "get_by_path_deep" => deep_path(shape, depth, false),
                _ => deep_path(shape, depth, true),
            };
            let mut data = vec![];
            let mut offs = vec![];
            let r = jsonb::get_by_path(&b, p, &mut data, &mut offs);
            match r {
                Ok(()) if offs.len() == 1 => "completed".into(),
                Ok(()) => format!("error:selected_{}_items", offs.len()),
                Err(e) => format!("error:{}", ops::err_name(&e)),
            }
        }
        "path_exists_deep" => {
            let b = deep_jsonb(shape, depth);
            res_name(jsonb::path_exists(&b, deep_path(shape, depth, false)))
        }
        "get_by_path_first_deep" | "get_by_path_array_deep" | "select_all_deep" | "select_first_deep" | "select_array_deep" | "select_first_wildcards" => {
            let b = deep_jsonb(shape, depth);
            let p = deep_path(shape, depth, op == "select_first_wildcards");
            let mut data = vec![];
            let mut offs = vec![];
            let r = match op {
                "get_by_path_first_deep" => jsonb::get_by_path_first(&b, p, &mut data, &mut offs),
                "get_by_path_array_deep" => jsonb::get_by_path_array(&b, p, &mut data, &mut offs),
                "select_all_deep" => jp::Selector::new(p, jp::Mode::All).select(&b, &mut data, &mut offs),
                "select_array_deep" => jp::Selector::new(p, jp::Mode::Array).select(&b, &mut data, &mut offs),
                _ => jp::Selector::new(p, jp::Mode::First).select(&b, &mut data, &mut offs),
            };
            match r {
                Ok(()) if !data.is_empty() => "completed".into(),
                Ok(()) => "error:selected_nothing".into(),
                Err(e) => format!("error:{}", ops::err_name(&e)),
            }
        }
        "parse_json_path_deep" => {
            let t = deep_path_text(shape, depth);
            res_name(jp::parse_json_path(&t).map(|p| p.paths.len()))
        }
        "convert_to_comparable" => {
            let b = deep_jsonb(shape, depth);
            let mut out = vec![];
            jsonb::convert_to_comparable(&b, &mut out);
            if out.is_empty() { "error:empty".into() } else { "completed".into() }
        }
        // the index-taking functions on a deep document: today they read the outer container only
        "delete_by_index_deep" => {
            let b = deep_jsonb(shape, depth);
            let mut out = vec![];
            res_name(jsonb::delete_by_index(&b, -1, &mut out))
        }
        "array_insert_deep" => {
            let b = deep_jsonb(shape, depth);
            let mut out = vec![];
            res_name(jsonb::array_insert(&b, i32::MAX, &b, &mut out))
        }
        "delete_by_keypath_deep" => {
            let b = deep_jsonb(shape, depth);
            let kp = [if level_is_object(shape, 0) { jsonb::keypath::KeyPath::Name(Cow::Borrowed("a")) } else { jsonb::keypath::KeyPath::Index(0) }];
            let mut out = vec![];
            res_name(jsonb::delete_by_keypath(&b, kp.iter(), &mut out))
        }
        "get_by_keypath_deep" => {
            let b = deep_jsonb(shape, depth);
            let kp: Vec<jsonb::keypath::KeyPath<'static>> = (0..depth.saturating_sub(1))
                .map(|l| if level_is_object(shape, l) { jsonb::keypath::KeyPath::Name(Cow::Borrowed("a")) } else { jsonb::keypath::KeyPath::Index(0) })
                .collect();
            match jsonb::get_by_keypath(&b, kp.iter()) {
                Some(_) => "completed".into(),
                None => "error:none".into(),
            }
        }
        "traverse_check_string" => {
            let b = deep_jsonb(shape, depth);
            let found = jsonb::traverse_check_string(&b, |s| s == b"needle");
            if found { "error:found_a_string_in_a_document_without_strings".into() } else { "completed".into() }
        }
        "traverse_check_string_reentrant" => {
            // documents embedded in string values (message envelopes): the closure looks inside them with the same
            // function, `depth` (at most 12) envelopes deep, as JSONB and as text
            fn holds(s: &[u8]) -> bool {
                match s.first() {
                    Some(b'{') | Some(b'[') => jsonb::traverse_check_string(s, holds),
                    _ => s == b"needle",
                }
            }
            let levels = depth.min(12);
            let mut doc = String::from(if shape == "arrays" { r#"["x","needle"]"# } else { r#"{"seq":0,"body":"needle"}"# });
            for l in 1..levels {
                let inner = jsonb::Value::String(doc.clone().into()).to_string();
                doc = if level_is_object(shape, l) { format!(r#"{{"seq":{l},"body":{inner}}}"#) } else { format!(r#"[[{l},{inner}]]"#) };
            }
            let as_jsonb = match jsonb::parse_value(doc.as_bytes()) {
                Ok(v) => v.to_vec(),
                Err(e) => return format!("harness:envelope_does_not_parse:{}", ops::err_name(&e)),
            };
            let (a, b) = (jsonb::traverse_check_string(&as_jsonb, holds), jsonb::traverse_check_string(doc.as_bytes(), holds));
            if a && b { "completed".into() } else { format!("error:needle_not_found_jsonb_{a}_text_{b}") }
        }
        "get_by_index_deep" => {
            let b = deep_jsonb(shape, depth);
            let _ = jsonb::get_by_index(&b, 0);
            "completed".into()
        }
        "get_by_name_deep" => {
            let b = deep_jsonb(shape, depth);
            let _ = jsonb::get_by_name(&b, "a", true);
            "completed".into()
        }
        "object_keys_array_values_each" => {
            let b = deep_jsonb(shape, depth);
            let _ = jsonb::object_keys(&b);
            let _ = jsonb::array_values(&b);
            let _ = jsonb::object_each(&b);
            "completed".into()
        }
        "concat_deep" => {
            let b = deep_jsonb(shape, depth);
            let mut out = vec![];
            res_name(jsonb::concat(&b, &b, &mut out))
        }
        "array_distinct_deep" => {
            let b = deep_jsonb(shape, depth);
            let mut out = vec![];
            res_name(jsonb::array_distinct(&b, &mut out))
        }
        "exists_keys_deep" => {
            let b = deep_jsonb(shape, depth);
            let keys: [&[u8]; 2] = [b"a", b"b"];
            let _ = jsonb::exists_all_keys(&b, keys.iter().copied());
            let _ = jsonb::exists_any_keys(&b, keys.iter().copied());
            "completed".into()
        }
        "inspect_deep" => {
            let b = deep_jsonb(shape, depth);
            let _ = (jsonb::type_of(&b).is_ok(), jsonb::array_length(&b), jsonb::is_array(&b), jsonb::is_object(&b), jsonb::is_null(&b), jsonb::as_str(&b).is_some(), jsonb::as_number(&b).is_some());
            "completed".into()
        }
        // a JSON-text target with a deep JSONB value to insert: the JSONB argument is spliced in as raw bytes today
        "object_insert_mixed_deep" => {
            let b = deep_jsonb(shape, depth);
            let mut out = vec![];
            res_name(jsonb::object_insert(b"{\"a\":1}", "k", &b, true, &mut out))
        }
        "array_insert_mixed_deep" => {
            let b = deep_jsonb(shape, depth);
            let mut out = vec![];
            res_name(jsonb::array_insert(b"[1,2]", 1, &b, &mut out))
        }
        // {"a": D} vs {"b": D}: decided by the keys; [1, D] vs [2, D]: decided by the first element
        "compare_keys_differ_deep" => {
            let d = deep_jsonb(shape, depth);
            let mut l = vec![];
            let mut r = vec![];
            let (okl, okr) = (jsonb::build_object([("a", d.as_slice())], &mut l).is_ok(), jsonb::build_object([("b", d.as_slice())], &mut r).is_ok());
            if !(okl && okr) { "error:build".into() } else { res_name(jsonb::compare(&l, &r)) }
        }
        "compare_first_differs_deep" => {
            let d = deep_jsonb(shape, depth);
            let one = [0x20u8, 0, 0, 0, 0x20, 0, 0, 2, 0x50, 1];
            let two = [0x20u8, 0, 0, 0, 0x20, 0, 0, 2, 0x50, 2];
            let mut l = vec![];
            let mut r = vec![];
            let (okl, okr) = (jsonb::build_array([&one[..], d.as_slice()], &mut l).is_ok(), jsonb::build_array([&two[..], d.as_slice()], &mut r).is_ok());
            if !(okl && okr) { "error:build".into() } else { res_name(jsonb::compare(&l, &r)) }
        }
        // the right object has more members than the left: decided from the two headers today
        "contains_size_guard_deep" => {
            let d = deep_jsonb(shape, depth);
            let null = [0x20u8, 0, 0, 0, 0, 0, 0, 0];
            let mut l = vec![];
            let mut r = vec![];
            let (okl, okr) = (jsonb::build_object([("a", d.as_slice())], &mut l).is_ok(), jsonb::build_object([("a", d.as_slice()), ("b", &null[..])], &mut r).is_ok());
            if !(okl && okr) {
                "error:build".into()
            } else if jsonb::contains(&l, &r) {
                "error:contains_true".into()
            } else {
                "completed".into()
            }
        }
        // type_of decides JSON text by its first byte: no parse, no recursion today
        "type_of_text_deep" => {
            let t = deep_text(shape, depth);
            res_name(jsonb::type_of(&t))
        }
        other => format!("harness:unknown_op:{other}"),
    }
}

/// Documents holding the special numbers; every comparing, rendering, decoding and set operation must get through them.
fn run_special(op: &str) -> String {
    let specials = vec![
        MVal::F64(mval::CANON_NAN), MVal::U64(1), MVal::f(1.5), MVal::f(f64::INFINITY), MVal::f(f64::NEG_INFINITY), MVal::f(-0.0), MVal::U64(0),
        MVal::I64(i64::MIN), MVal::U64(u64::MAX), MVal::U64((1 << 53) + 1), MVal::f(5e-324), MVal::f(f64::MAX), MVal::s("s"), MVal::Null,
    ];
    let doc = mval::encode(&MVal::Arr(specials.clone()));
    let scalars: Vec<Vec<u8>> = specials.iter().map(mval::encode).collect();
    let mut out = vec![];
    let mut offs = vec![];
    match op {
        "special_compare" => {
            let _ = jsonb::compare(&doc, &doc);
            for a in &scalars {
                for b in &scalars {
                    let _ = jsonb::compare(a, b);
                }
            }
        }
        "special_render" => {
            let _ = (jsonb::to_string(&doc), jsonb::to_pretty_string(&doc));
            for a in &scalars {
                let _ = (jsonb::to_string(a), jsonb::to_str(a));
            }
        }
        "special_comparable" => {
            jsonb::convert_to_comparable(&doc, &mut out);
            for a in &scalars {
                jsonb::convert_to_comparable(a, &mut out);
            }
        }
        "special_decode_eq" => {
            if let Ok(v) = jsonb::from_slice(&doc) {
                let w = v.clone();
                let _ = v == w;
                let _ = format!("{v} {v:?}");
                let _ = v.to_vec();
            }
            let _ = jsonb::parse_jsonb(&doc);
        }
        "special_contains" => {
            let _ = jsonb::contains(&doc, &doc);
            for a in &scalars {
                let _ = jsonb::contains(&doc, a);
            }
        }
        "special_filter" => {
            for lit in [jp::PathValue::Number(jsonb::Number::UInt64(1)), jp::PathValue::Number(jsonb::Number::Float64(f64::NAN)), jp::PathValue::Number(jsonb::Number::Int64(i64::MIN))] {
                for bop in [jp::BinaryOperator::Gt, jp::BinaryOperator::Eq, jp::BinaryOperator::NotEq, jp::BinaryOperator::Lte] {
                    let e = jp::Expr::BinaryOp { op: bop, left: Box::new(jp::Expr::Paths(vec![jp::Path::Current])), right: Box::new(jp::Expr::Value(Box::new(lit.clone()))) };
                    let p = jp::JsonPath { paths: vec![jp::Path::Root, jp::Path::BracketWildcard, jp::Path::FilterExpr(Box::new(e))] };
                    let _ = jsonb::get_by_path(&doc, p, &mut out, &mut offs);
                }
            }
        }
        "special_sets" => {
            let _ = jsonb::array_distinct(&doc, &mut out);
            let _ = jsonb::array_intersection(&doc, &doc, &mut out);
            let _ = jsonb::array_except(&doc, &doc, &mut out);
            let _ = jsonb::array_overlap(&doc, &doc);
        }
        "special_casts" => {
            for a in &scalars {
                let _ = (jsonb::as_f64(a), jsonb::as_i64(a), jsonb::as_u64(a), jsonb::to_f64(a).is_ok(), jsonb::to_i64(a).is_ok(), jsonb::to_u64(a).is_ok(), jsonb::to_bool(a).is_ok(), jsonb::to_serde_json(a).is_ok());
            }
            let _ = jsonb::to_serde_json(&doc).is_ok();
        }
        // extreme WIDTH: 65,537 identical items, 65,537 identical strings, 65,537 distinct numbers
        "special_wide" => {
            let same = mval::encode(&MVal::Arr((0..65_537).map(|_| MVal::U64(7)).collect()));
            let strs = mval::encode(&MVal::Arr((0..65_537).map(|_| MVal::s("k")).collect()));
            let distinct = mval::encode(&MVal::Arr((0..65_537u64).map(MVal::U64).collect()));
            for w in [&same, &strs, &distinct] {
                let _ = jsonb::array_intersection(w, w, &mut out);
                let _ = jsonb::array_except(w, w, &mut out);
                let _ = jsonb::array_overlap(w, w);
                let _ = jsonb::array_distinct(w, &mut out);
                let _ = jsonb::delete_by_name(w, "k", &mut out);
                let _ = jsonb::concat(w, w, &mut out);
                let _ = jsonb::compare(w, w);
                // contains(w, w) is quadratic in the width by design (every element searched in the array): left out
                let _ = jsonb::to_string(w);
                jsonb::convert_to_comparable(w, &mut out);
                let _ = jsonb::get_by_path(w, jp::JsonPath { paths: vec![jp::Path::Root, jp::Path::BracketWildcard] }, &mut out, &mut offs);
                let _ = jsonb::from_slice(w).map(|v| v.to_vec());
                out.clear();
                offs.clear();
            }
        }
        // extreme numbers written in JSONPath / key-path TEXT: parsed, then evaluated
        "special_path_text" => {
            let texts: &[&str] = &[
                "$[*]?(@ == 18446744073709551615)", "$[*]?(@ == 18446744073709551616)", "$[*]?(@ > -9223372036854775808)", "$[*]?(@ < -9223372036854775809)",
                "$[*]?(@ <= 1e999)", "$[*]?(@ >= -1e999)", "$[*]?(@ != 5e-324)", "$[*]?(@ == 99999999999999999999999999999999999999)", "$[4294967295]", "$[4294967296]",
                "$[2147483648]", "$[-2147483649]", "$[last - 4294967296]", "$[0 to 2147483648]", "$[0 to 2147483647]", "$[-2147483648 to 2147483647]", "$[2147483647 to 2147483647]", "$[last to 2147483647]", "$[*]?(@ == -0)", "$[*]?(@ == 0.0000000000000000000000000000000001)",
                "$ == 1e999", "$[*] > 18446744073709551616",
            ];
            for t in texts {
                if let Ok(p) = jp::parse_json_path(t.as_bytes()) {
                    let _ = jsonb::get_by_path(&doc, p.clone(), &mut out, &mut offs);
                    let _ = jsonb::path_exists(&doc, p.clone());
                    let _ = jsonb::path_match(&doc, p);
                    let _ = format!("{}", jp::parse_json_path(t.as_bytes()).unwrap());
                }
            }
            for t in ["{4294967295}", "{-4294967296}", "{2147483648}", "{-2147483649}", "{99999999999999999999}", "{0,-0}"] {
                if let Ok(k) = jsonb::keypath::parse_key_paths(t.as_bytes()) {
                    let _ = jsonb::get_by_keypath(&doc, k.paths.iter());
                    let _ = jsonb::delete_by_keypath(&doc, k.paths.iter(), &mut out);
                    let _ = format!("{k}");
                }
            }
        }
        other => return format!("harness:unknown_special:{other}"),
    }
    "completed".into()
}

/// Index cases that go through the text parsers (JSONPath / key path) before the evaluator.
fn run_index_text_op(op: &str, index: i32, index2: i32, len: usize, text: bool) -> String {
    let arr = index_doc(len);
    let mut m = BTreeMap::new();
    m.insert("k".to_string(), arr.clone());
    let obj = MVal::Obj(m);
    let st = mval::TextStyle::default();
    let enc = |v: &MVal| if text { mval::to_text(v, &st).into_bytes() } else { mval::encode(v) };
    if op == "get_by_index_extreme" {
        // the index is a usize: a negative i32 cast the way a caller would (`as usize`) lands at the top of the range
        let idx = index as i64 as usize;
        return match jsonb::get_by_index(&enc(&arr), idx) {
            Some(_) => "completed".into(),
            None => "error:none".into(),
        };
    }
    if op == "keypath_text" {
        let t = format!("{{k,{index}}}");
        return match jsonb::keypath::parse_key_paths(t.as_bytes()) {
            Ok(kp) => match jsonb::get_by_keypath(&enc(&obj), kp.paths.iter()) {
                Some(_) => "completed".into(),
                None => "error:none".into(),
            },
            Err(e) => format!("error:{}", ops::err_name(&e)),
        };
    }
    let t = match op {
        "path_text_index" => format!("$[{index}]"),
        "path_text_last_minus" => format!("$[last - {index}]"),
        "path_text_last_plus" => format!("$[last + {index}]"),
        "path_text_slice_idx_idx" => format!("$[{index2} to {index}]"),
        _ => format!("$[{index} to last - {index2}]"),
    };
    match jp::parse_json_path(t.as_bytes()) {
        Ok(p) => {
            let _ = format!("{p}");
            let mut data = vec![];
            let mut offs = vec![];
            res_name(jsonb::get_by_path(&enc(&arr), p, &mut data, &mut offs))
        }
        Err(e) => format!("error:{}", ops::err_name(&e)),
    }
}

// ---------------------------------------------------------------------------
// API sweep: every public byte-level function with a deep document in each argument position and format.
// What dies of stack exhaustion on the unchanged tree is recorded in /verif/limits_baseline.json; the sweep
// therefore reports regressions only (a function or argument combination that is shallow today and recurses tomorrow).
// ---------------------------------------------------------------------------

pub const API_DEPTH: u64 = 200_000;
pub const API_STACK: u64 = 1 << 20;
pub const API_BUILDS: &[&str] = &["dev", "shipped"];
pub const API_SHAPES: &[&str] = &["arrays", "objects"];
const UNARY_VARIANTS: &[&str] = &["dJ", "dT"];
const BINARY_VARIANTS: &[&str] = &["dJ_sJ", "sJ_dJ", "dJ_dJ", "dT_sT", "sT_dT", "sT_dJ", "dJ_sT"];

/// (function, is_binary, small document kind: 'a' array / 'o' object)
pub const API_FUNCS: &[(&str, bool, char)] = &[
    ("array_length", false, 'a'), ("get_by_index", false, 'a'), ("get_by_name", false, 'o'), ("get_by_name_ignore_case", false, 'o'),
    ("get_by_keypath_short", false, 'a'), ("exists_all_keys", false, 'o'), ("exists_any_keys", false, 'o'), ("object_keys", false, 'o'),
    ("object_each", false, 'o'), ("array_values", false, 'a'), ("is_null", false, 'a'), ("as_bool", false, 'a'), ("to_bool", false, 'a'),
    ("as_number", false, 'a'), ("to_i64", false, 'a'), ("to_u64", false, 'a'), ("to_f64", false, 'a'), ("as_str", false, 'a'), ("to_str", false, 'a'),
    ("is_array", false, 'a'), ("is_object", false, 'o'), ("to_serde_json", false, 'a'), ("to_serde_json_object", false, 'o'), ("type_of", false, 'a'),
    ("traverse_check_string", false, 'a'), ("delete_by_name", false, 'o'), ("delete_by_index", false, 'a'), ("delete_by_keypath_short", false, 'a'),
    ("array_distinct", false, 'a'), ("object_delete", false, 'o'), ("object_pick", false, 'o'), ("strip_nulls", false, 'a'), ("path_exists_root", false, 'a'),
    ("path_match_predicate", false, 'a'), ("get_by_path_first_elem", false, 'a'), ("get_by_path_array_wild", false, 'a'), ("parse_lazy_value", false, 'a'),
    ("lazy_raw_to_vec", false, 'a'), ("lazy_raw_array_length", false, 'a'), ("lazy_raw_write_to_vec", false, 'a'),
    // the statement's own operation classes, here for their argument layouts (deep TEXT in particular)
    ("to_string", false, 'a'), ("to_pretty_string", false, 'a'), ("convert_to_comparable", false, 'a'), ("get_by_path_root", false, 'a'),
    ("from_slice", false, 'a'), ("parse_jsonb", false, 'a'), ("parse_value", false, 'a'), ("compare", true, 'a'),
    ("contains", true, 'a'), ("concat", true, 'a'), ("array_insert", true, 'a'), ("array_intersection", true, 'a'), ("array_except", true, 'a'),
    ("array_overlap", true, 'a'), ("object_insert", true, 'o'), ("build_array", true, 'a'), ("build_object", true, 'o'),
];

pub fn api_variants(binary: bool, func: &str) -> Vec<&'static str> {
    if !binary {
        UNARY_VARIANTS.to_vec()
    } else if func == "build_array" || func == "build_object" {
        // items must be JSONB
        vec!["dJ_sJ", "sJ_dJ", "dJ_dJ"]
    } else {
        BINARY_VARIANTS.to_vec()
    }
}

fn api_arg(code: &str, shape: &str, depth: u64, small: char) -> Vec<u8> {
    let small_tree = if small == 'o' {
        let mut m = BTreeMap::new();
        m.insert("a".to_string(), MVal::U64(1));
        MVal::Obj(m)
    } else {
        MVal::Arr(vec![MVal::U64(1), MVal::s("a")])
    };
    match code {
        "dJ" => deep_jsonb(shape, depth),
        "dT" => deep_text(shape, depth),
        "sJ" => mval::encode(&small_tree),
        _ => mval::to_text(&small_tree, &mval::TextStyle::default()).into_bytes(),
    }
}

fn run_api(func: &str, variant: &str, shape: &str, depth: u64) -> String {
    use jsonb::keypath::KeyPath;
    let small = API_FUNCS.iter().find(|f| f.0 == func).map(|f| f.2).unwrap_or('a');
    let mut parts = variant.split('_');
    let a = api_arg(parts.next().unwrap_or("dJ"), shape, depth, small);
    let b = parts.next().map(|c| api_arg(c, shape, depth, small)).unwrap_or_default();
    let mut out = Vec::new();
    let mut offs = Vec::new();
    let short_kp = [if level_is_object(shape, 0) { KeyPath::Name(Cow::Borrowed("a")) } else { KeyPath::Index(0) }];
    let keys: [&[u8]; 2] = [b"a", b"zz"];
    let set: std::collections::BTreeSet<&str> = ["a"].into_iter().collect();
    let root = || jp::JsonPath { paths: vec![jp::Path::Root] };
    match func {
        "array_length" => { let _ = jsonb::array_length(&a); }
        "get_by_index" => { let _ = jsonb::get_by_index(&a, 0); }
        "get_by_name" => { let _ = jsonb::get_by_name(&a, "a", false); }
        "get_by_name_ignore_case" => { let _ = jsonb::get_by_name(&a, "A", true); }
        "get_by_keypath_short" => { let _ = jsonb::get_by_keypath(&a, short_kp.iter()); }
        "exists_all_keys" => { let _ = jsonb::exists_all_keys(&a, keys.iter().copied()); }
        "exists_any_keys" => { let _ = jsonb::exists_any_keys(&a, keys.iter().copied()); }
        "object_keys" => { let _ = jsonb::object_keys(&a); }
        "object_each" => { let _ = jsonb::object_each(&a); }
        "array_values" => { let _ = jsonb::array_values(&a); }
        "is_null" => { let _ = (jsonb::is_null(&a), jsonb::as_null(&a)); }
        "as_bool" => { let _ = (jsonb::as_bool(&a), jsonb::is_boolean(&a)); }
        "to_bool" => { let _ = jsonb::to_bool(&a); }
        "as_number" => { let _ = (jsonb::as_number(&a), jsonb::is_number(&a), jsonb::is_i64(&a), jsonb::is_u64(&a), jsonb::is_f64(&a)); }
        "to_i64" => { let _ = (jsonb::to_i64(&a), jsonb::as_i64(&a)); }
        "to_u64" => { let _ = (jsonb::to_u64(&a), jsonb::as_u64(&a)); }
        "to_f64" => { let _ = (jsonb::to_f64(&a), jsonb::as_f64(&a)); }
        "as_str" => { let _ = (jsonb::as_str(&a).is_some(), jsonb::is_string(&a)); }
        "to_str" => { let _ = jsonb::to_str(&a); }
        "is_array" => { let _ = jsonb::is_array(&a); }
        "is_object" => { let _ = jsonb::is_object(&a); }
        "to_serde_json" => { if let Ok(v) = jsonb::to_serde_json(&a) { std::mem::forget(v); } }
        "to_serde_json_object" => { if let Ok(v) = jsonb::to_serde_json_object(&a) { std::mem::forget(v); } }
        "type_of" => { let _ = jsonb::type_of(&a); }
        "traverse_check_string" => { let _ = jsonb::traverse_check_string(&a, |s| s == b"needle"); }
        "delete_by_name" => { let _ = jsonb::delete_by_name(&a, "zz", &mut out); }
        "delete_by_index" => { let _ = jsonb::delete_by_index(&a, 5, &mut out); }
        "delete_by_keypath_short" => { let _ = jsonb::delete_by_keypath(&a, short_kp.iter(), &mut out); }
        "array_distinct" => { let _ = jsonb::array_distinct(&a, &mut out); }
        "object_delete" => { let _ = jsonb::object_delete(&a, &set, &mut out); }
        "object_pick" => { let _ = jsonb::object_pick(&a, &set, &mut out); }
        "strip_nulls" => { let _ = jsonb::strip_nulls(&a, &mut out); }
        "path_exists_root" => { let _ = jsonb::path_exists(&a, root()); }
        "path_match_predicate" => {
            let p = jp::JsonPath { paths: vec![jp::Path::Predicate(Box::new(jp::Expr::BinaryOp { op: jp::BinaryOperator::Eq, left: Box::new(jp::Expr::Paths(vec![jp::Path::Root])), right: Box::new(jp::Expr::Value(Box::new(jp::PathValue::Null))) }))] };
            let _ = jsonb::path_match(&a, p);
        }
        "get_by_path_first_elem" => {
            let step = if level_is_object(shape, 0) { jp::Path::DotField(Cow::Borrowed("a")) } else { jp::Path::ArrayIndices(vec![jp::ArrayIndex::Index(jp::Index::Index(0))]) };
            let _ = jsonb::get_by_path_first(&a, jp::JsonPath { paths: vec![jp::Path::Root, step] }, &mut out, &mut offs);
        }
        "get_by_path_array_wild" => {
            let step = if level_is_object(shape, 0) { jp::Path::DotWildcard } else { jp::Path::BracketWildcard };
            let _ = jsonb::get_by_path_array(&a, jp::JsonPath { paths: vec![jp::Path::Root, step] }, &mut out, &mut offs);
        }
        "parse_lazy_value" => { if let Ok(v) = jsonb::parse_lazy_value(&a) { std::mem::forget(v); } }
        "lazy_raw_to_vec" => { let _ = jsonb::LazyValue::Raw(Cow::Borrowed(&a)).to_vec(); }
        "lazy_raw_array_length" => { let _ = jsonb::LazyValue::Raw(Cow::Borrowed(&a)).array_length(); }
        "lazy_raw_write_to_vec" => { jsonb::LazyValue::Raw(Cow::Borrowed(&a)).write_to_vec(&mut out); }
        "to_string" => { let _ = jsonb::to_string(&a); }
        "to_pretty_string" => {
            // quadratic output on deep JSONB: bounded by the stack on the unchanged tree (it dies of stack exhaustion first)
            let _ = jsonb::to_pretty_string(&a);
        }
        "convert_to_comparable" => { jsonb::convert_to_comparable(&a, &mut out); }
        "get_by_path_root" => { let _ = jsonb::get_by_path(&a, root(), &mut out, &mut offs); }
        "from_slice" => { if let Ok(v) = jsonb::from_slice(&a) { dismantle(v); } }
        "parse_jsonb" => { if let Ok(v) = jsonb::parse_jsonb(&a) { dismantle(v); } }
        "parse_value" => { if let Ok(v) = jsonb::parse_value(&a) { dismantle(v); } }
        "compare" => { let _ = jsonb::compare(&a, &b); }
        "contains" => { let _ = jsonb::contains(&a, &b); }
        "concat" => { let _ = jsonb::concat(&a, &b, &mut out); }
        "array_insert" => { let _ = jsonb::array_insert(&a, 1, &b, &mut out); }
        "array_intersection" => { let _ = jsonb::array_intersection(&a, &b, &mut out); }
        "array_except" => { let _ = jsonb::array_except(&a, &b, &mut out); }
        "array_overlap" => { let _ = jsonb::array_overlap(&a, &b); }
        "object_insert" => { let _ = jsonb::object_insert(&a, "k", &b, true, &mut out); }
        "build_array" => { let _ = jsonb::build_array([a.as_slice(), b.as_slice()], &mut out); }
        "build_object" => { let _ = jsonb::build_object([("a", a.as_slice()), ("b", b.as_slice())], &mut out); }
        other => return format!("harness:unknown_api:{other}"),
    }
    "completed".into()
}

fn index_doc(len: usize) -> MVal {
    MVal::Arr((0..len).map(|i| MVal::U64(i as u64 + 1)).collect())
}

/// The operation an index case denotes, over registers [array, nested-object-holding-the-array, new value].
fn index_op(op: &str, index: i32, index2: i32) -> Op {
    let sel = |spec: AIdx| Op::Select { v: 0, path: MPath { steps: vec![Step::Indices(vec![spec])], predicate: None, rootless: false }, api: SelApi::GetByPath };
    match op {
        "delete_by_index" => Op::DeleteByIndex { v: 0, idx: index },
        "array_insert" => Op::ArrayInsert { v: 0, pos: index, new: 2 },
        "delete_by_keypath" => Op::DeleteByKeypath { v: 1, path: vec![KP::Name("k".into()), KP::Idx(index)] },
        "get_by_keypath" => Op::GetByKeypath { v: 1, path: vec![KP::Name("k".into()), KP::Idx(index)] },
        "path_index" => sel(AIdx::One(MIdx::Idx(index))),
        // `last - i` is parsed as LastIndex(-i) (saturating), `last + i` as LastIndex(i)
        "path_last_minus" => sel(AIdx::One(MIdx::Last(index.saturating_neg()))),
        "path_last_plus" => sel(AIdx::One(MIdx::Last(index))),
        "path_slice" => sel(AIdx::Slice(MIdx::Idx(index), MIdx::Last(index2))),
        "path_slice_idx_idx" => sel(AIdx::Slice(MIdx::Idx(index2), MIdx::Idx(index))),
        "path_slice_last_idx" => sel(AIdx::Slice(MIdx::Last(index2), MIdx::Idx(index))),
        "path_slice_last_last" => sel(AIdx::Slice(MIdx::Last(index), MIdx::Last(index2))),
        o => unreachable!("index op {o}"),
    }
}

fn run_index_op(op: &str, index: i32, index2: i32, len: usize, text: bool) -> String {
    let arr = index_doc(len);
    let mut m = BTreeMap::new();
    m.insert("k".to_string(), arr.clone());
    let regs = vec![arr, MVal::Obj(m), MVal::s("new")];
    let st = mval::TextStyle::default();
    let args: Vec<Vec<u8>> = regs.iter().map(|r| if text { mval::to_text(r, &st).into_bytes() } else { mval::encode(r) }).collect();
    let o = index_op(op, index, index2);
    // rendering the path (what an error message or a log line does) is part of handling it
    if let Op::Select { path, .. } = &o {
        let _ = path.display();
    }
    if let Op::DeleteByKeypath { path, .. } | Op::GetByKeypath { path, .. } = &o {
        let kp = jsonb::keypath::KeyPaths { paths: path.iter().map(|k| match k {
            KP::Idx(i) => jsonb::keypath::KeyPath::Index(*i),
            KP::Name(s) => jsonb::keypath::KeyPath::Name(Cow::Owned(s.clone())),
            KP::QName(s) => jsonb::keypath::KeyPath::QuotedName(Cow::Owned(s.clone())),
        }).collect() };
        let _ = format!("{kp}");
    }
    let mut buf = vec![];
    let mut offs = vec![];
    let got = ops::call(&o, &args, &regs, &mut buf, &mut offs);
    // recorded, not judged: does the result agree with the tree model?
    let want = model::apply(&o, &regs);
    let agrees = match (&got, &want) {
        (ops::LibOut::Wrote(Ok(())), model::ModelOut::Wrote(Ok(w))) => {
            if matches!(o, Op::Select { .. }) {
                // mixed mode: zero or one item, or one array
                let mut pos = 0usize;
                let docs: Vec<&[u8]> = offs.iter().map(|e| { let d = &buf[pos..*e as usize]; pos = *e as usize; d }).collect();
                docs.len() == w.len() && docs.iter().zip(w.iter()).all(|(d, m)| *d == mval::encode(m).as_slice())
            } else {
                w.len() == 1 && buf == mval::encode(&w[0])
            }
        }
        (ops::LibOut::Returned(None), model::ModelOut::Returned(None)) => true,
        (ops::LibOut::Returned(Some(d)), model::ModelOut::Returned(Some(w))) => d.len() == w.len() && d.iter().zip(w.iter()).all(|(d, m)| d == &mval::encode(m)),
        (ops::LibOut::Wrote(Err(_)), model::ModelOut::Wrote(Err(_))) => true,
        _ => false,
    };
    let base = match got {
        ops::LibOut::Wrote(Err(e)) => format!("error:{e}"),
        _ => "completed".to_string(),
    };
    if agrees { base } else { format!("{base}:differs_from_model") }
}

/// Entry point of the child process. Prints exactly one RESULT line.
pub fn child_main(arg: &str) -> i32 {
    let j: J = match serde_json::from_str(arg) {
        Ok(j) => j,
        Err(e) => {
            println!("RESULT harness:bad_case:{e}");
            return 2;
        }
    };
    let case = match Limits::case_from_json(&j) {
        Ok(c) => c,
        Err(e) => {
            println!("RESULT harness:bad_case:{e}");
            return 2;
        }
    };
    let stack = match &case {
        Case::Depth { stack, .. } | Case::Api { stack, .. } => *stack,
        Case::Index { .. } => 8 << 20,
    };
    let constrained = match &case {
        Case::Depth { build, .. } | Case::Index { build, .. } | Case::Api { build, .. } => build.contains("+aslimit"),
    };
    if constrained {
        // cap the address space at what is mapped now plus the headroom
        extern "C" {
            fn setrlimit(resource: i32, rlim: *const [u64; 2]) -> i32;
        }
        const RLIMIT_AS: i32 = 9;
        let pages: u64 = std::fs::read_to_string("/proc/self/statm").ok().and_then(|s| s.split_whitespace().next().and_then(|p| p.parse().ok())).unwrap_or(0);
        let lim = pages * 4096 + AS_HEADROOM + stack;
        // SAFETY: plain syscall wrapper with a valid pointer to two u64 (soft, hard)
        let rc = unsafe { setrlimit(RLIMIT_AS, &[lim, lim]) };
        if pages == 0 || rc != 0 {
            println!("RESULT harness:cannot_limit_address_space");
            return 2;
        }
    }
    let alloc_limit = match &case {
        Case::Depth { op, .. } if op == "to_pretty_string" => ALLOC_LIMIT * 8,
        Case::Api { func, .. } if func == "to_pretty_string" => ALLOC_LIMIT * 8,
        _ => ALLOC_LIMIT,
    };
    let h = std::thread::Builder::new().name("case".into()).stack_size(stack as usize).spawn(move || {
        crate::alloc::reset();
        let r = guard(|| match &case {
            Case::Api { func, variant, shape, depth, .. } => run_api(func, variant, shape, *depth),
            Case::Depth { op, shape, depth, .. } => run_depth_op(op, shape, *depth),
            Case::Index { op, .. } if op.starts_with("special_") => run_special(op),
            Case::Index { op, index, index2, len, text, .. } if op.contains("text") || op == "get_by_index_extreme" => run_index_text_op(op, *index, *index2, *len, *text),
            Case::Index { op, index, index2, len, text, .. } => run_index_op(op, *index, *index2, *len, *text),
        });
        // the memory-limited node: the largest single request made while the case ran
        let biggest = crate::alloc::max_request();
        match r {
            Ok(s) if biggest > alloc_limit => Ok(format!("alloc:{biggest}:{s}")),
            r => r,
        }
    });
    let out = match h {
        Ok(h) => h.join(),
        Err(e) => {
            println!("RESULT harness:spawn:{e}");
            return 2;
        }
    };
    match out {
        Ok(Ok(s)) => println!("RESULT {s}"),
        Ok(Err(p)) => println!("RESULT panic:{}:{}", p.loc, p.msg.replace('\n', " ")),
        Err(_) => println!("RESULT panic:?:uncaught"),
    }
    0
}

// ---------------------------------------------------------------------------
// parent side
// ---------------------------------------------------------------------------

fn build_exe(build: &str) -> Result<std::path::PathBuf, String> {
    let me = std::env::current_exe().map_err(|e| e.to_string())?;
    // .../target/<profile>/sim
    let target = me.parent().and_then(|p| p.parent()).ok_or("cannot locate target dir")?;
    let build = base_build(build);
    let p = target.join(if build == "dev" { "debug" } else { build }).join("sim");
    if !p.exists() {
        return Err(format!("{} is missing: run `/verif/check build`", p.display()));
    }
    Ok(p)
}

#[derive(Debug)]
enum ChildOutcome {
    Result(String),
    StackOverflow,
    Death(String),
    Hang,
    Harness(String),
}

fn run_child(case: &Case, timeout_s: u64) -> ChildOutcome {
    use std::io::Read;
    use std::process::{Command, Stdio};
    let build = match case {
        Case::Depth { build, .. } | Case::Index { build, .. } | Case::Api { build, .. } => build.clone(),
    };
    let exe = match build_exe(&build) {
        Ok(e) => e,
        Err(e) => return ChildOutcome::Harness(e),
    };
    let arg = serde_json::to_string(&Limits::case_to_json(case)).unwrap();
    let mut child = match Command::new(exe).arg("limits-child").arg(arg).stdout(Stdio::piped()).stderr(Stdio::piped()).spawn() {
        Ok(c) => c,
        Err(e) => return ChildOutcome::Harness(format!("spawn: {e}")),
    };
    // The child prints one short line; reading after exit cannot block on a full pipe.
    let t0 = std::time::Instant::now();
    let status = loop {
        match child.try_wait() {
            Ok(Some(s)) => break s,
            Ok(None) => {
                if t0.elapsed().as_secs() > timeout_s {
                    let _ = child.kill();
                    let _ = child.wait();
                    return ChildOutcome::Hang;
                }
                std::thread::sleep(std::time::Duration::from_millis(2));
            }
            Err(e) => return ChildOutcome::Harness(format!("wait: {e}")),
        }
    };
    let mut so = String::new();
    let mut se = String::new();
    if let Some(mut o) = child.stdout.take() {
        let _ = o.read_to_string(&mut so);
    }
    if let Some(mut e) = child.stderr.take() {
        let _ = e.read_to_string(&mut se);
    }
    if status.code() == Some(0) {
        match so.lines().find_map(|l| l.strip_prefix("RESULT ")) {
            Some(r) if r.starts_with("harness:") => ChildOutcome::Harness(r.to_string()),
            Some(r) => ChildOutcome::Result(r.to_string()),
            None => ChildOutcome::Harness(format!("child printed no RESULT line: {so:?} {se:?}")),
        }
    } else if status.code() == Some(2) {
        ChildOutcome::Harness(so)
    } else if se.contains("overflowed its stack") {
        ChildOutcome::StackOverflow
    } else {
        ChildOutcome::Death(format!("{status:?} {}", se.lines().last().unwrap_or("")))
    }
}

impl Limits {
    pub fn case_to_json(c: &Case) -> J {
        match c {
            Case::Api { func, variant, shape, depth, stack, build } => json!({"kind": "api", "func": func, "variant": variant, "shape": shape, "depth": depth, "stack_bytes": stack, "build": build}),
            Case::Depth { op, shape, depth, stack, build } => json!({"kind": "depth", "op": op, "shape": shape, "depth": depth, "stack_bytes": stack, "build": build}),
            Case::Index { op, index, index2, len, text, build } => json!({"kind": "index", "op": op, "index": index, "index2": index2, "len": len, "text": text, "build": build}),
        }
    }
    pub fn case_from_json(j: &J) -> Result<Case, String> {
        let s = |k: &str| j[k].as_str().map(|v| v.to_string()).ok_or_else(|| format!("field {k}"));
        match j["kind"].as_str().unwrap_or("") {
            "api" => Ok(Case::Api { func: s("func")?, variant: s("variant")?, shape: s("shape")?, depth: j["depth"].as_u64().ok_or("depth")?.max(1), stack: j["stack_bytes"].as_u64().ok_or("stack")?, build: s("build")? }),
            "depth" => Ok(Case::Depth { op: s("op")?, shape: s("shape")?, depth: j["depth"].as_u64().ok_or("depth")?.max(1), stack: j["stack_bytes"].as_u64().ok_or("stack")?, build: s("build")? }),
            "index" => Ok(Case::Index {
                op: s("op")?,
                index: j["index"].as_i64().ok_or("index")? as i32,
                index2: j["index2"].as_i64().unwrap_or(0) as i32,
                len: j["len"].as_u64().ok_or("len")? as usize,
                text: j["text"].as_bool().unwrap_or(false),
                build: s("build")?,
            }),
            k => Err(format!("unknown limits case kind {k:?}")),
        }
    }

    /// The fixed part of the plan: the full ladder and the full extreme-index grid.
    fn plan() -> Vec<Case> {
        let mut v = vec![];
        for op in DEPTH_OPS {
            for shape in SHAPES {
                for depth in LADDER {
                    if *op == "to_pretty_string" && *depth > PRETTY_MAX_DEPTH {
                        continue;
                    }
                    for stack in STACKS {
                        for build in BUILDS {
                            v.push(Case::Depth { op: op.to_string(), shape: shape.to_string(), depth: *depth, stack: *stack, build: build.to_string() });
                        }
                    }
                }
            }
        }
        for op in DEPTH_OPS {
            for shape in SHAPES {
                for depth in BIG_STACK_DEPTHS {
                    if *op == "to_pretty_string" && *depth > PRETTY_MAX_DEPTH {
                        continue;
                    }
                    for build in BUILDS {
                        v.push(Case::Depth { op: op.to_string(), shape: shape.to_string(), depth: *depth, stack: BIG_STACK, build: build.to_string() });
                    }
                }
            }
        }
        for op in DEPTH_OPS {
            for shape in SHAPES {
                for depth in ABORT_DEPTHS {
                    v.push(Case::Depth { op: op.to_string(), shape: shape.to_string(), depth: *depth, stack: 8 << 20, build: ABORT_BUILD.to_string() });
                }
            }
        }
        for op in DEPTH_OPS {
            for shape in SHAPES {
                for depth in CONSTRAINED_DEPTHS {
                    if *op == "to_pretty_string" && *depth > PRETTY_MAX_DEPTH {
                        continue;
                    }
                    v.push(Case::Depth { op: op.to_string(), shape: shape.to_string(), depth: *depth, stack: 8 << 20, build: CONSTRAINED_BUILD.to_string() });
                }
            }
        }
        let index_builds: Vec<&str> = BUILDS.iter().copied().chain([ABORT_BUILD]).collect();
        for op in INDEX_OPS.iter().filter(|o| o.starts_with("special_")) {
            for build in &index_builds {
                v.push(Case::Index { op: op.to_string(), index: 0, index2: 0, len: 0, text: false, build: build.to_string() });
            }
        }
        for op in INDEX_OPS.iter().filter(|o| !o.starts_with("special_")) {
            for len in [0usize, 1, 3] {
                let l = len as i32;
                let mut idxs = vec![i32::MIN, i32::MIN + 1, -l - 1, -l, -1, 0, l - 1, l, l + 1, i32::MAX - 1, i32::MAX];
                idxs.dedup();
                for index in idxs {
                    for text in [false, true] {
                        for build in &index_builds {
                            let index2s: Vec<i32> = if op.contains("slice") { vec![i32::MIN, 0, i32::MAX] } else { vec![0] };
                            for index2 in index2s {
                                v.push(Case::Index { op: op.to_string(), index, index2, len, text, build: build.to_string() });
                            }
                        }
                    }
                }
            }
        }
        v
    }
}

/// `sim limits-floors`: bisects, per (operation, shape), the smallest nesting depth at which the
/// child dies of stack exhaustion on the smallest stack budget of the plan (1 MiB), over both builds.
/// Prints one JSON object per finding; used to (re)write the C20 entries of known_findings.json by hand.
pub fn floors_main() -> i32 {
    let mut rows = vec![];
    let mut handles = vec![];
    for op in DEPTH_OPS {
        for shape in SHAPES {
            let (op, shape) = (op.to_string(), shape.to_string());
            handles.push(std::thread::spawn(move || {
                let mut per = serde_json::Map::new();
                for build in BUILDS {
                    let mut stacks = serde_json::Map::new();
                    for mib in [1u64, 2, 4, 8] {
                        let crashes = |d: u64| -> bool {
                            let c = Case::Depth { op: op.clone(), shape: shape.clone(), depth: d, stack: mib << 20, build: build.to_string() };
                            matches!(run_child(&c, 120), ChildOutcome::StackOverflow)
                        };
                        let top = if op == "to_pretty_string" { PRETTY_MAX_DEPTH } else { 300_000 };
                        if !crashes(top) {
                            continue;
                        }
                        let (mut lo, mut hi) = (1u64, top); // lo completes, hi crashes
                        while hi - lo > 1 {
                            let mid = (lo + hi) / 2;
                            if crashes(mid) {
                                hi = mid;
                            } else {
                                lo = mid;
                            }
                        }
                        stacks.insert(mib.to_string(), json!(hi));
                    }
                    if !stacks.is_empty() {
                        per.insert(build.to_string(), J::Object(stacks));
                    }
                }
                (op, shape, per)
            }));
        }
    }
    for h in handles {
        if let Ok((op, shape, per)) = h.join() {
            if per.is_empty() {
                continue;
            }
            let least = per.values().filter_map(|b| b.as_object()).flat_map(|b| b.values()).filter_map(|v| v.as_u64()).min().unwrap_or(0);
            rows.push(json!({"property": "C20", "key": format!("stack_overflow:{op}:{shape}"), "status": "known", "min_crash_depth": per,
                "what": format!("{op} on {shape} nested {least} or more levels deep (smallest over the recorded builds and 1-8 MiB stacks) dies of stack exhaustion: unbounded recursion on nesting depth"),
                "repro": format!("sim limits-child '{{\"kind\":\"depth\",\"op\":\"{op}\",\"shape\":\"{shape}\",\"depth\":300000,\"stack_bytes\":1048576,\"build\":\"shipped\"}}'")}));
        }
    }
    for r in &rows {
        println!("{}", serde_json::to_string(r).unwrap());
    }
    0
}

/// `sim limits-baseline`: runs the API sweep on the current tree and prints limits_baseline.json
/// (the variants that die of stack exhaustion today, per build).
pub fn baseline_main() -> i32 {
    let plan = Limits::api_plan();
    let next = std::sync::atomic::AtomicUsize::new(0);
    let found: std::sync::Mutex<BTreeMap<String, Vec<String>>> = std::sync::Mutex::new(BTreeMap::new());
    let other: std::sync::Mutex<Vec<String>> = std::sync::Mutex::new(vec![]);
    std::thread::scope(|sc| {
        for _ in 0..16 {
            sc.spawn(|| loop {
                let i = next.fetch_add(1, std::sync::atomic::Ordering::SeqCst);
                if i >= plan.len() {
                    break;
                }
                if let Case::Api { func, variant, shape, build, .. } = &plan[i] {
                    let key = format!("api:{func}:{variant}:{shape}");
                    match run_child(&plan[i], 120) {
                        ChildOutcome::StackOverflow => found.lock().unwrap().entry(key).or_default().push(build.clone()),
                        ChildOutcome::Result(r) if !r.starts_with("panic:") => {}
                        o => other.lock().unwrap().push(format!("{key} {build}: {o:?}")),
                    }
                }
            });
        }
    });
    let mut found = found.into_inner().unwrap();
    for v in found.values_mut() {
        v.sort();
    }
    let j = json!({
        "comment": "API-sweep variants (function : argument layout : shape) that die of stack exhaustion on the unchanged tree, per build, at the sweep's depth and stack budget. These functions are outside the operation classes C20 names, or reach a recorded recursive entry point (parser, decoder, encoder, Value drop) through another function; they are recorded so that the sweep reports regressions only. Regenerate with `sim limits-baseline`.",
        "depth": API_DEPTH, "stack_bytes": API_STACK, "crashing_today": found,
    });
    println!("{}", serde_json::to_string_pretty(&j).unwrap());
    for o in other.into_inner().unwrap() {
        eprintln!("NOT-A-CLEAN-OUTCOME {o}");
    }
    0
}

impl Scenario for Limits {
    type Case = Case;
    fn id(&self) -> &'static str {
        "C20"
    }
    fn name(&self) -> &'static str {
        "limits"
    }
    fn level(&self) -> &'static str {
        "fault_enumeration"
    }
    fn tag(&self) -> u64 {
        0xC20
    }
    fn long_blocks(&self) -> bool {
        false
    }
    fn runs(&self, tier: &str) -> u64 {
        let fixed = (Limits::plan().len() + self.probes().len() + Limits::api_plan().len()) as u64;
        if tier == "thorough" {
            fixed + 16_000
        } else {
            fixed + 400
        }
    }

    fn gen(&self, seed: u64, run: u64) -> Case {
        let mut plan = Limits::plan();
        plan.extend(self.probes());
        plan.extend(Limits::api_plan());
        if (run as usize) < plan.len() {
            return plan[run as usize].clone();
        }
        let mut r = Rng::for_run(seed, self.tag(), run);
        let build = r.pick(BUILDS).to_string();
        if r.chance(1, 2) {
            let op = r.pick(DEPTH_OPS).to_string();
            // log-uniform depth between the rungs
            let lo = (100f64).ln();
            let hi = (300_000f64).ln();
            let x = lo + (hi - lo) * (r.below(1 << 20) as f64 / (1u64 << 20) as f64);
            let mut depth = x.exp() as u64;
            if op == "to_pretty_string" {
                depth = depth.min(PRETTY_MAX_DEPTH);
            }
            Case::Depth { op, shape: r.pick(SHAPES).to_string(), depth: depth.max(1), stack: *r.pick(&[8u64 << 20, 2 << 20, 1 << 20, 4 << 20]), build }
        } else {
            let len = r.urange(0, 5);
            let pick = |r: &mut Rng| -> i32 {
                match r.below(4) {
                    0 => r.next_u64() as i32,
                    1 => i32::MIN + r.below(4) as i32,
                    2 => i32::MAX - r.below(4) as i32,
                    _ => r.range(-(len as i64) - 2, len as i64 + 2) as i32,
                }
            };
            let index = pick(&mut r);
            let index2 = pick(&mut r);
            Case::Index { op: r.pick(INDEX_OPS).to_string(), index, index2, len, text: r.chance(1, 2), build }
        }
    }

    fn exec(&self, case: &Case, stats: &mut Stats) -> RunOut<Case> {
        let mut digest = Fnv::new();
        stats.steps += 1;
        let out = run_child(case, 120);
        if let Case::Api { func, variant, shape, build, .. } = case {
            let key = format!("api:{func}:{variant}:{shape}");
            let (label, viol): (String, Option<Viol>) = match &out {
                ChildOutcome::Result(r) if r.starts_with("panic:") => ("panic".into(), Some(Viol { class: format!("panic:{key}"), detail: r.clone() })),
                ChildOutcome::Result(r) if r.starts_with("alloc:") => ("huge_allocation".into(), Some(Viol { class: format!("huge_allocation:{key}"), detail: format!("a single allocation request of {} bytes", r.split(':').nth(1).unwrap_or("?")) })),
                ChildOutcome::Result(r) => (r.split(':').next().unwrap_or("?").to_string(), None),
                ChildOutcome::StackOverflow => {
                    if self.baseline.get(&key).map_or(false, |b| b.iter().any(|x| x == build)) {
                        ("recorded_crash".into(), None)
                    } else {
                        ("stack_overflow".into(), Some(Viol { class: format!("stack_overflow:{key}"), detail: format!("{func} with argument layout {variant} on {shape} nested {API_DEPTH} levels deep died of stack exhaustion in the {build} build; it completes on the recorded baseline") }))
                    }
                }
                ChildOutcome::Death(d) => ("process_death".into(), Some(Viol { class: format!("process_death:{key}"), detail: d.clone() })),
                ChildOutcome::Hang => ("hang".into(), Some(Viol { class: format!("hang:{key}"), detail: "no result after 120 s".into() })),
                ChildOutcome::Harness(e) => ("harness".into(), Some(Viol { class: "H0:harness".into(), detail: e.clone() })),
            };
            digest.str(&label);
            stats.inc2("api_sweep", &label);
            if label == "completed" || label == "error" {
                stats.inc("probe/api_variant_shallow_today");
            }
            let mut h = Fnv::new();
            h.str(&format!("{key}{build}"));
            stats.distinct.insert(h.finish());
            stats.sample(10, || json!({"case": Limits::case_to_json(case), "outcome": label}));
            return RunOut { digest: digest.finish(), violations: viol.into_iter().map(|v| (v, None)).collect() };
        }
        let (label, viol): (String, Option<Viol>) = match (&out, case) {
            (ChildOutcome::Harness(e), _) => (format!("harness:{e}"), Some(Viol { class: "H0:harness".into(), detail: e.clone() })),
            (ChildOutcome::Result(r), _) if r.starts_with("panic:") => {
                let (opname, what) = match case {
                    Case::Depth { op, shape, .. } => (op.clone(), shape.clone()),
                    Case::Index { op, .. } => (op.clone(), "extreme_index".to_string()),
                    Case::Api { func, variant, .. } => (func.clone(), variant.clone()),
                };
                // the panic site without its line number keeps the class stable across unrelated edits
                let rest = &r["panic:".len()..];
                let mut parts = rest.splitn(3, ':');
                let file = parts.next().unwrap_or("?");
                let _line = parts.next();
                let msg = parts.next().unwrap_or("");
                ("panic".into(), Some(Viol { class: format!("panic:{opname}:{what}:{file}"), detail: format!("{r} ({msg})") }))
            }
            (ChildOutcome::Result(r), _) if r.starts_with("alloc:") => {
                let (opname, what) = match case {
                    Case::Depth { op, shape, .. } => (op.clone(), shape.clone()),
                    Case::Index { op, .. } => (op.clone(), "extreme_index".to_string()),
                    Case::Api { func, variant, .. } => (func.clone(), variant.clone()),
                };
                let bytes = r.split(':').nth(1).unwrap_or("?");
                ("huge_allocation".into(), Some(Viol { class: format!("huge_allocation:{opname}:{what}"), detail: format!("a single allocation request of {bytes} bytes: on a node whose allocator can refuse it (memory limit, 32 bit) this is an abort of the process") }))
            }
            (ChildOutcome::Result(r), _) => (r.split(':').next().unwrap_or("?").to_string() + if r.ends_with("differs_from_model") { ":differs_from_model" } else { "" }, None),
            (ChildOutcome::StackOverflow, Case::Depth { op, shape, depth, .. }) => {
                let key = format!("stack_overflow:{op}:{shape}");
                let build = match case {
                    Case::Depth { build, .. } => build.as_str(),
                    _ => "",
                };
                let stack = match case {
                    Case::Depth { stack, .. } => *stack,
                    _ => 0,
                };
                // not recorded at all: the plain key (an unlisted violation). Recorded: covered only from 60 % of the
                // depth recorded for this build and stack on; a recorded finding without such a depth covers nothing.
                let listed = self.listed.contains(&key);
                let class = if !listed || self.covered(&key, build, stack, *depth) {
                    key
                } else {
                    format!("stack_overflow_much_earlier_than_recorded:{op}:{shape}:{build}")
                };
                ("stack_overflow".into(), Some(Viol { class, detail: format!("the process died of stack exhaustion at nesting depth {depth}") }))
            }
            (ChildOutcome::StackOverflow, Case::Index { op, .. }) => ("stack_overflow".into(), Some(Viol { class: format!("stack_overflow:{op}:extreme_index"), detail: "stack exhaustion".into() })),
            (ChildOutcome::StackOverflow, Case::Api { .. }) => unreachable!("handled above"),
            (ChildOutcome::Death(d), c) => {
                let opname = match c {
                    Case::Depth { op, shape, .. } => format!("{op}:{shape}"),
                    Case::Index { op, .. } => format!("{op}:extreme_index"),
                    Case::Api { func, variant, .. } => format!("{func}:{variant}"),
                };
                ("process_death".into(), Some(Viol { class: format!("process_death:{opname}"), detail: d.clone() }))
            }
            (ChildOutcome::Hang, c) => {
                let opname = match c {
                    Case::Depth { op, shape, .. } => format!("{op}:{shape}"),
                    Case::Index { op, .. } => format!("{op}:extreme_index"),
                    Case::Api { func, variant, .. } => format!("{func}:{variant}"),
                };
                ("hang".into(), Some(Viol { class: format!("hang:{opname}"), detail: "no result after 120 s".into() }))
            }
        };
        digest.str(&label);
        match case {
            Case::Depth { op, shape, depth, stack, build } => {
                stats.inc2("depth_cases", &format!("{op}:{build}:{}MiB", stack >> 20));
                if *stack >= BIG_STACK {
                    stats.inc("probe/big_stack_case");
                }
                if build == ABORT_BUILD {
                    stats.inc("probe/abort_build_case");
                }
                if build == CONSTRAINED_BUILD {
                    stats.inc("probe/address_space_limited_case");
                }
                stats.inc2("outcome", &format!("{op}:{label}"));
                if *depth >= 2 {
                    let mut h = Fnv::new();
                    h.str(&format!("{op}{shape}{depth}{stack}{build}"));
                    stats.distinct.insert(h.finish());
                }
                if label == "stack_overflow" {
                    stats.inc("probe/stack_exhaustion_observed");
                    stats.mini(&format!("min_crash_depth/{op}:{shape}:{}MiB:{build}", stack >> 20), *depth);
                    stats.mini(&format!("min_crash_depth_any/{op}:{shape}"), *depth);
                } else if label == "completed" {
                    stats.maxi(&format!("max_completed_depth/{op}:{shape}:{}MiB:{build}", stack >> 20), *depth);
                    if *depth >= 100_000 {
                        stats.inc("probe/completed_at_100k_or_deeper");
                    }
                }
            }
            Case::Api { .. } => {}
            Case::Index { op, index, len, build, text, .. } => {
                stats.inc2("index_cases", &format!("{op}:{build}:{}", if *text { "text" } else { "jsonb" }));
                stats.inc2("outcome", &format!("{op}:{label}"));
                let l = *len as i64;
                if (*index as i64) < -l || (*index as i64) > l {
                    let mut h = Fnv::new();
                    h.str(&format!("{:?}", case));
                    stats.distinct.insert(h.finish());
                }
                if *index == i32::MIN || *index == i32::MAX {
                    stats.inc("probe/i32_extreme_index");
                }
                if label.ends_with("differs_from_model") {
                    stats.inc("probe/result_differs_from_model_recorded_not_judged");
                }
            }
        }
        stats.sample(8, || json!({"case": Limits::case_to_json(case), "outcome": label}));
        RunOut { digest: digest.finish(), violations: viol.into_iter().map(|v| (v, None)).collect() }
    }

    fn shrink(&self, case: &Case) -> Vec<Case> {
        match case {
            Case::Api { func, variant, shape, depth, stack, build } => {
                let d = *depth;
                [d / 2, d - d / 4, d - d / 8, d - d / 16]
                    .into_iter()
                    .filter(|c| *c >= 1 && *c < d)
                    .map(|c| Case::Api { func: func.clone(), variant: variant.clone(), shape: shape.clone(), depth: c, stack: *stack, build: build.clone() })
                    .collect()
            }
            Case::Depth { op, shape, depth, stack, build } => {
                // bisect towards the smallest crashing depth
                let d = *depth;
                let mut cands = vec![];
                for c in [d / 2, d - d / 4, d - d / 8, d - d / 16, d - d / 64, d - d / 256, d.saturating_sub(1)] {
                    if c >= 1 && c < d && !cands.contains(&c) {
                        cands.push(c);
                    }
                }
                cands.into_iter().map(|c| Case::Depth { op: op.clone(), shape: shape.clone(), depth: c, stack: *stack, build: build.clone() }).collect()
            }
            Case::Index { op, index, index2, len, text, build } => {
                let mut out = vec![];
                if *len > 0 {
                    out.push(Case::Index { op: op.clone(), index: *index, index2: *index2, len: 0, text: *text, build: build.clone() });
                    out.push(Case::Index { op: op.clone(), index: *index, index2: *index2, len: len - 1, text: *text, build: build.clone() });
                }
                if *text {
                    out.push(Case::Index { op: op.clone(), index: *index, index2: *index2, len: *len, text: false, build: build.clone() });
                }
                if *index2 != 0 {
                    out.push(Case::Index { op: op.clone(), index: *index, index2: 0, len: *len, text: *text, build: build.clone() });
                }
                out
            }
        }
    }

    fn to_json(&self, case: &Case) -> J {
        Limits::case_to_json(case)
    }
    fn from_json(&self, j: &J) -> Result<Case, String> {
        Limits::case_from_json(j)
    }
    fn size(&self, case: &Case) -> J {
        match case {
            Case::Depth { depth, .. } | Case::Api { depth, .. } => json!({"depth": depth}),
            Case::Index { len, .. } => json!({"len": len}),
        }
    }

    fn rule(&self) -> String {
        "One child process per case. Depth cases: operations {parse, drop, encode, decode x2, render x2, compare, comparable encoding, path query x4, path parse, the index-taking functions and the further byte-level functions and argument combinations that are shallow or iterative today} x shapes {arrays, objects, alternating} x \
         the depth ladder {1,2,10,100,1e3,1e4,1e5,3e5} x stack budgets {8 MiB, 2 MiB} x builds {dev = unoptimised with overflow checks and debug assertions, checked = optimised with the same checks, shipped = release defaults}, all enumerated, \
         plus seeded log-uniform depths between the rungs with stacks {1,2,4,8 MiB}. Extreme-argument cases: {delete_by_index, array_insert, delete_by_keypath, get_by_keypath, $[i], \
         $[last-i], $[last+i], $[a to b]} x {MIN, MIN+1, -len-1, -len, -1, 0, len-1, len, len+1, MAX-1, MAX} x len {0,1,3} x {JSONB, JSON text} x all three builds, all enumerated, plus seeded i32s. \
         API sweep: 57 public functions x every argument layout (deep JSONB / deep text in each position, small JSONB / text in the other) x {arrays, objects} x {dev, shipped} \
         at 200,000 levels on a 1 MiB stack; variants that die on the unchanged tree are recorded in limits_baseline.json, so the sweep reports regressions only. \
         distinct_nontrivial = distinct cases with depth >= 2 or an index outside -len..len."
            .into()
    }

    fn assumptions(&self) -> Vec<String> {
        vec![
            "stack budgets 8 MiB (main-thread default) and 2 MiB (Rust's spawned-thread default), plus 1 and 4 MiB in seeded cases; the largest input is about 4 MB".into(),
            "to_pretty_string is exercised only up to 20,000 levels because its output is quadratic in depth".into(),
            "a known stack-exhaustion finding records the smallest crashing depth per build and per stack budget (1, 2, 4, 8 MiB); it covers a crash only at or beyond 60 % of the depth recorded for the case's build and stack; an earlier crash is a new violation, and probe cases at 55 % of every recorded depth must complete".into(),
            "extreme-index results are compared with the tree model for the record only; the property judges crash vs no crash".into(),
        ]
    }

    fn coverage_extra(&self, stats: &Stats) -> serde_json::Map<String, J> {
        let mut m = serde_json::Map::new();
        m.insert("depth_cases".into(), stats.group("depth_cases"));
        m.insert("index_cases".into(), stats.group("index_cases"));
        m.insert("outcome_table".into(), stats.group("outcome"));
        m.insert("api_sweep_outcomes".into(), stats.group("api_sweep"));
        let mins: serde_json::Map<String, J> = stats.min.iter().map(|(k, v)| (k.clone(), json!(v))).collect();
        m.insert("smallest_crashing_depth_observed".into(), J::Object(mins));
        m.insert(
            "fault_kinds".into(),
            json!({"stack_exhaustion_observed": stats.get("probe/stack_exhaustion_observed"), "small_stack_budget_cases": "2 MiB and 1 MiB stacks", "large_stack_budget_cases (1 GiB, 33,000 and 66,000 levels)": stats.get("probe/big_stack_case"),
                   "overflow_checked_build_cases": "build=checked", "panic_abort_build_cases": stats.get("probe/abort_build_case"),
                   "memory_limited_node": "largest single allocation request recorded per case; above 1 GiB (8 GiB for to_pretty_string) is a violation",
                   "address_space_limited_cases (RLIMIT_AS = mapped + 192 MiB: big mappings and big thread stacks fail)": stats.get("probe/address_space_limited_case")}),
        );
        m.insert("child_processes".into(), json!(stats.steps));
        m.insert(
            "components".into(),
            json!({"real": ["jsonb text parser", "encoder", "decoder", "to_string/to_pretty_string", "compare", "jsonpath selector and parser", "index-taking functions"],
                   "simulated": ["the process boundary (one child per case)", "the thread stack budget (1 MiB - 1 GiB)", "the build configuration (arithmetic checks on/off, optimisation, panic=unwind/abort)", "the node's memory limit (accounting allocator)"], "stub": []}),
        );
        m
    }

    fn probes(&self) -> Vec<&'static str> {
        vec![
            "probe/big_stack_case",
            "probe/abort_build_case",
            "probe/address_space_limited_case","probe/i32_extreme_index", "probe/completed_at_100k_or_deeper", "probe/stack_exhaustion_observed", "probe/api_variant_shallow_today"]
    }
}
