//! C17 — `batch`: one caller-owned output buffer (and one offsets vector) shared by a
//! history of calls, the column-builder pattern. After every call: earlier bytes are
//! untouched, what was appended equals what the same call writes into an empty
//! buffer, reported offsets are positions in the shared buffer, and a call that
//! fails for a documented reason appends nothing.

use crate::gen::{self, GenCfg};
use crate::harness::{guard, RunOut, Scenario, Stats, Viol};
use crate::mval::{self, MVal, TextStyle};
use crate::opgen::{self, OpGenCfg, BATCH_KINDS};
use crate::ops::{self, LibOut, Op};
use crate::rng::{Fnv, Rng};
use crate::shrink;
use serde_json::{json, Value as J};

#[derive(Clone, Debug, PartialEq)]
pub struct Call {
    pub op: Op,
    /// registers handed to this call as JSON text instead of JSONB
    pub text_regs: Vec<usize>,
    /// the call was constructed to fail for a documented reason
    pub expect_err: bool,
    /// build_array / build_object only: an item that is not JSONB at all (position, bytes). The functions assume valid
    /// items, so nothing is required of what such a call appends -- only that earlier bytes and offsets survive.
    pub bad_item: Option<(usize, Vec<u8>)>,
    /// a register passed as JSON text that does not parse (register, bytes): a malformed row in the column. Like a bad
    /// item, only the frame condition is required of such a call; what matters is that the calls after it are unaffected.
    pub bad_text: Option<(usize, Vec<u8>)>,
    /// selections on a kept `Selector` only: `exists` (1) or `predicate_match` (2) is called on the same object and
    /// document first; the answer is dropped
    pub warm: u8,
}

/// JSON text that does not parse and is not mistaken for JSONB by `is_jsonb` either.
pub const BAD_TEXTS: &[&[u8]] = &[b"[1,", b"{\"a\":", b"[nul", b"tru", b"\"abc", b"[1 2]", b"{\"a\" 1}", b"-", b"1e", b"[1,2,3]]", b"{\"a\":1,}", b"\xff\xfe"];

pub const BAD_ITEMS: &[&[u8]] = &[b"null", b"true", b"false", b"\x00\x00\x00\x00", b"\xa0\x00\x00\x01", b"\xc0\x00\x00\x00", b"\xe0\x00\x00\x00rest", b"", b"\x20", b"\x80\x00"];

/// The operation actually executed: with the bad item spliced in as pseudo-register `nregs`.
fn effective_op(call: &Call, nregs: usize) -> Op {
    match (&call.op, &call.bad_item) {
        (Op::BuildArray { items }, Some((pos, _))) => {
            let mut it = items.clone();
            it.insert((*pos).min(it.len()), nregs);
            Op::BuildArray { items: it }
        }
        (Op::BuildObject { items }, Some((pos, _))) => {
            let mut it = items.clone();
            let at = (*pos).min(it.len());
            // keep the keys strictly increasing: reuse the neighbour's key with a suffix
            let key = if at == 0 { String::new() } else { format!("{}\u{1}", it[at - 1].0) };
            it.insert(at, (key, nregs));
            Op::BuildObject { items: it }
        }
        (op, _) => op.clone(),
    }
}

#[derive(Clone, Debug)]
pub struct Case {
    pub regs: Vec<MVal>,
    pub styles: Vec<TextStyle>,
    pub prefill: Vec<u8>,
    pub prefill_offsets: Vec<u64>,
    /// 0 exact fit before every call (forces reallocation), 1 large reserve, 2 alternate, 3 a few spare bytes (1-64: the
    /// call starts in place and reallocates part-way through)
    pub policy: u8,
    pub calls: Vec<Call>,
    /// when non-zero the buffer starts as this many zero bytes (a column that has already grown to 256 MiB / 4 GiB:
    /// where a 28-bit length or a 32-bit index first goes wrong); `prefill` is then ignored
    pub prefill_zeros: u64,
    /// path selections run on one compiled `Selector` per distinct path, kept for the whole batch (compile once, run per
    /// row), instead of on a selector built for the call
    pub reuse_selectors: bool,
    /// the empty-buffer twins of all calls run after the whole batch instead of right after each call
    pub twins_last: bool,
}

/// Only one worker at a time materialises a multi-GiB buffer.
static HUGE_LOCK: std::sync::Mutex<()> = std::sync::Mutex::new(());

pub struct Batch;

fn documented_error(op: &Op, regs: &[MVal]) -> bool {
    // the reasons the functions' doc comments and error enum name: wrong container kind, duplicate key
    use crate::model::{self, ModelOut};
    matches!(model::apply(op, regs), ModelOut::Wrote(Err(_)))
}

impl Batch {
    fn args_for(case: &Case, call: &Call) -> Vec<Vec<u8>> {
        let reads = call.op.reads();
        case.regs
            .iter()
            .enumerate()
            .map(|(i, v)| {
                if !reads.contains(&i) {
                    // never looked at by this call
                    return Vec::new();
                }
                if let Some((_, bytes)) = call.bad_text.as_ref().filter(|(reg, _)| *reg == i) {
                    bytes.clone()
                } else if call.text_regs.contains(&i) {
                    mval::to_text(v, &case.styles[i]).into_bytes()
                } else {
                    mval::encode(v)
                }
            })
            .collect()
    }
}

/// The same oracle for a buffer that starts as `prefill_zeros` zero bytes, without ever copying the prefix:
/// the prefix must still be all zero after every call, the bytes appended so far are snapshotted as usual.
fn exec_huge(case: &Case, stats: &mut Stats) -> RunOut<Case> {
    let _guard = HUGE_LOCK.lock().unwrap_or_else(|e| e.into_inner());
    let n = case.prefill_zeros as usize;
    let mut digest = Fnv::new();
    let mut violations: Vec<(Viol, Option<Case>)> = vec![];
    let mut data: Vec<u8> = vec![0u8; n];
    data.reserve(1 << 20);
    let mut offsets: Vec<u64> = case.prefill_offsets.clone();
    let bin: Vec<Vec<u8>> = case.regs.iter().map(mval::encode).collect();
    stats.inc(if n >= (1usize << 32) - 64 { "probe/prior_buffer_4gib" } else if n >= (1usize << 28) - 64 && n < (1usize << 28) + 64 { "probe/prior_buffer_256mib" } else { "probe/prior_buffer_seeded_pow2" });
    for (ci, call) in case.calls.iter().enumerate() {
        let name = call.op.name();
        let own;
        let args: &[Vec<u8>] = if call.text_regs.is_empty() {
            &bin
        } else {
            own = Batch::args_for(case, call);
            &own
        };
        let tail_before: Vec<u8> = data[n..].to_vec();
        let before_len = data.len();
        let before_off = offsets.clone();
        stats.steps += 1;
        stats.inc2("calls_huge_prior", name);
        if call.op.reads().iter().any(|r| args.get(*r).map_or(false, |a| a.len() >= 1 << 28)) {
            stats.inc("probe/item_of_2pow28_bytes");
        }
        let out = guard(|| ops::call(&call.op, args, &case.regs, &mut data, &mut offsets));
        let mut fresh = Vec::new();
        let mut fresh_off = Vec::new();
        let out2 = guard(|| ops::call(&call.op, args, &case.regs, &mut fresh, &mut fresh_off));
        let (out, out2) = match (out, out2) {
            (Err(p), _) | (_, Err(p)) => {
                violations.push((Viol { class: format!("panic:{name}:{}", p.loc), detail: format!("call {ci} ({name}) with a {n}-byte prior buffer panicked at {}: {}", p.loc, p.msg) }, None));
                break;
            }
            (Ok(a), Ok(b)) => (a, b),
        };
        digest.bytes(data.get(n..).unwrap_or(&[]));
        digest.str(&format!("{:?}", out));
        // below 1 GiB the whole prefix is scanned after every call; above, the first and last 64 MiB after every
        // call (where a wrapped or truncated index lands) and the whole prefix once more at the end of the batch
        let w = 64usize << 20;
        // a call that replaced or truncated the buffer must be reported, not indexed into
        let prefix_ok = data.len() >= before_len
            && (if n <= (1usize << 30) { all_zero(&data[..n]) } else { all_zero(&data[..w]) && all_zero(&data[n - w..n]) })
            && data[n..before_len] == tail_before[..];
        if !prefix_ok {
            let at = data.iter().take(n.min(data.len())).position(|b| *b != 0);
            violations.push((
                Viol {
                    class: format!("prior_bytes_modified:{name}"),
                    detail: format!("call {ci} ({name}) changed the {before_len} bytes that were already in the buffer (first changed position: {:?}; buffer is now {} bytes)", at, data.len()),
                },
                None,
            ));
            break;
        }
        if offsets.len() < before_off.len() || offsets[..before_off.len()] != before_off[..] {
            violations.push((Viol { class: format!("prior_offsets_modified:{name}"), detail: format!("call {ci} ({name}) changed offsets that were already there") }, None));
            break;
        }
        if out != out2 {
            violations.push((
                Viol { class: format!("outcome_depends_on_prior:{name}"), detail: format!("call {ci} ({name}) returned {:?} on a buffer of {before_len} bytes but {:?} on an empty one", out, out2) },
                None,
            ));
            break;
        }
        match &out {
            LibOut::Wrote(Ok(())) => {
                if data[before_len..] != fresh[..] {
                    violations.push((
                        Viol { class: format!("appended_differs:{name}"), detail: format!("call {ci} ({name}) appended {} bytes after {before_len} prior bytes; the same call writes {} bytes into an empty buffer and they differ", data.len() - before_len, fresh.len()) },
                        None,
                    ));
                    break;
                }
                let want: Vec<u64> = fresh_off.iter().map(|o| o + before_len as u64).collect();
                if offsets[before_off.len()..] != want[..] {
                    violations.push((
                        Viol { class: format!("offsets_not_buffer_positions:{name}"), detail: format!("call {ci} ({name}) reported offsets {:?}; expected {:?}", &offsets[before_off.len()..], want) },
                        None,
                    ));
                    break;
                }
            }
            LibOut::Wrote(Err(e)) => {
                // every argument is valid: whatever error the function declares for it must leave the buffer alone
                if data.len() != before_len || offsets != before_off {
                    violations.push((Viol { class: format!("error_after_write:{name}:{e}"), detail: format!("call {ci} ({name}) returned {e} on valid arguments but left {} new bytes in the buffer", data.len() - before_len) }, None));
                    break;
                }
            }
            LibOut::Returned(_) => unreachable!(),
        }
    }
    if violations.is_empty() && n > (1usize << 30) && !(data.len() >= n && all_zero(&data[..n])) {
        violations.push((
            Viol { class: "prior_bytes_modified:unattributed".into(), detail: format!("some call of the batch changed the {n}-byte prefix outside its first and last 64 MiB") },
            None,
        ));
    }
    stats.sample(8, || json!({"prior_buffer_zero_bytes": n, "calls": case.calls.iter().map(|c| c.op.name()).collect::<Vec<_>>()}));
    RunOut { digest: digest.finish(), violations }
}

/// Is the slice all zero? Scanned on 8 threads (memory-bandwidth bound; the slice may be 4 GiB).
fn all_zero(b: &[u8]) -> bool {
    let chunk = (b.len() / 8).max(1 << 20);
    std::thread::scope(|sc| {
        let hs: Vec<_> = b.chunks(chunk).map(|c| sc.spawn(move || c.iter().all(|x| *x == 0))).collect();
        hs.into_iter().all(|h| h.join().unwrap_or(false))
    })
}

impl Scenario for Batch {
    type Case = Case;
    fn id(&self) -> &'static str {
        "C17"
    }
    fn name(&self) -> &'static str {
        "batch"
    }
    fn level(&self) -> &'static str {
        "exploration"
    }
    fn tag(&self) -> u64 {
        0xC17
    }
    fn runs(&self, tier: &str) -> u64 {
        if tier == "thorough" {
            2_000_000
        } else {
            120_000
        }
    }

    fn gen(&self, seed: u64, run: u64) -> Case {
        let mut r = Rng::for_run(seed, self.tag(), run);
        let (vals, _) = opgen::value_profile(&mut r);
        let nregs = r.urange(2, 6);
        let regs: Vec<MVal> = (0..nregs).map(|_| gen::gen_doc(&mut r, &vals, 70)).collect();
        let styles: Vec<TextStyle> = (0..nregs).map(|_| gen::gen_text_style(&mut r)).collect();
        // swarm: which functions this batch mixes, how often text is used, how often calls are built to fail
        let mut kinds: Vec<&'static str> = BATCH_KINDS.iter().copied().filter(|_| r.chance(1, 2)).collect();
        if kinds.is_empty() {
            kinds.push(*r.pick(BATCH_KINDS));
        }
        let text_pct = *r.pick(&[0u64, 0, 20, 50, 100]);
        let fail_pct = *r.pick(&[0u64, 10, 25, 50]);
        let prefill = match r.below(4) {
            0 => vec![],
            1 => vec![0xAA; r.urange(1, 16)],
            _ => (0..r.urange(1, 512)).map(|_| r.below(256) as u8).collect(),
        };
        let prefill_offsets: Vec<u64> = if r.chance(1, 2) { vec![] } else { (0..r.urange(1, 4)).map(|_| r.below(1000)).collect() };
        let policy = r.below(4) as u8;
        let ncalls = r.urange(1, 40);
        let ocfg = OpGenCfg { kinds: &kinds, vals: &vals, filters: true, fail_pct };
        let mixed_formats = r.chance(1, 2);
        let mut calls = vec![];
        for _ in 0..ncalls {
            let kind = *r.pick(&kinds);
            let mut op = opgen::gen_op(&mut r, kind, &regs, &ocfg);
            match &mut op {
                // build_object takes the keys as the caller gives them: also out of order and repeated
                Op::BuildObject { items } if items.len() > 1 && r.chance(1, 3) => {
                    for i in (1..items.len()).rev() {
                        let j = r.idx(i + 1);
                        items.swap(i, j);
                    }
                    if r.chance(1, 2) {
                        let (from, to) = (r.idx(items.len()), r.idx(items.len()));
                        items[to].0 = items[from].0.clone();
                        if r.chance(1, 2) {
                            // adjacent repeat
                            let it = items[from].clone();
                            items.insert(from, it);
                        }
                    }
                }
                // the same path applied to another row: what a compiled selector is for
                Op::Select { path, api, v } if r.chance(1, 3) => {
                    let earlier: Vec<&Call> = calls.iter().filter(|c: &&Call| matches!(&c.op, Op::Select { .. })).collect();
                    if !earlier.is_empty() {
                        if let Op::Select { path: p0, api: a0, .. } = &earlier[r.idx(earlier.len())].op {
                            // (a filter is evaluated per item: keep filtered paths off the very large documents)
                            let target = r.idx(regs.len());
                            if !(p0.has_filter() || p0.predicate.is_some()) || regs[target].node_count() <= 2000 {
                                *path = p0.clone();
                                *api = *a0;
                                *v = target;
                            }
                        }
                    }
                }
                _ => {}
            }
            let reads = op.reads();
            let mut text_regs: Vec<usize> = vec![];
            for (pos, reg) in reads.iter().enumerate() {
                let ok = op.arg_accepts_text(pos) && !regs[*reg].has_nonfinite();
                if ok && r.chance(text_pct, 100) && !text_regs.contains(reg) {
                    text_regs.push(*reg);
                }
            }
            // the text branch of the two-document functions is entered through the first argument only
            if op.second_text_needs_first_text() && reads.len() == 2 && !text_regs.contains(&reads[0]) && !text_regs.is_empty() {
                // (JSONB, text): kept in one batch in two
                if !mixed_formats {
                    text_regs.clear();
                }
            }
            // a register used twice is text in both positions or in neither
            if reads.len() == 2 && reads[0] == reads[1] && !(op.arg_accepts_text(0) && op.arg_accepts_text(1)) {
                text_regs.clear();
            }
            let expect_err = documented_error(&op, &regs);
            let bad_item = if matches!(op, Op::BuildArray { .. } | Op::BuildObject { .. }) && r.chance(fail_pct, 200) {
                Some((r.idx(4), r.pick(BAD_ITEMS).to_vec()))
            } else {
                None
            };
            // a malformed text row: one of the text arguments (or, for a two-document function entered through a text
            // first argument, the second argument) does not parse
            let mut bad_text = None;
            if bad_item.is_none() && !text_regs.is_empty() && r.chance(fail_pct, 300) {
                let cands: Vec<usize> = reads.iter().enumerate().filter(|(pos, reg)| op.arg_accepts_text(*pos) && (text_regs.contains(reg) || *pos == 1) && (reads.len() < 2 || reads[0] != reads[1])).map(|(_, reg)| *reg).collect();
                if !cands.is_empty() {
                    bad_text = Some((cands[r.idx(cands.len())], r.pick(BAD_TEXTS).to_vec()));
                }
            }
            // a damaged JSONB row handed to a path selection (stored bytes cut short): it fails part-way, on a selector kept
            // for the rows after it
            if let Op::Select { v, api, .. } = &op {
                if bad_text.is_none() && !api.accepts_text() && r.chance(fail_pct, 200) {
                    let b = mval::encode(&regs[*v]);
                    if b.len() > 9 {
                        let cut = r.urange(1, 9);
                        bad_text = Some((*v, b[..b.len() - cut].to_vec()));
                    }
                }
            }
            let warm = if matches!(op, Op::Select { .. }) && r.chance(1, 3) { 1 + r.below(2) as u8 } else { 0 };
            calls.push(Call { op, text_regs, expect_err, bad_item, bad_text, warm });
        }
        // a few batches per tier run against a buffer that has already grown past 2^28 resp. 2^32 bytes
        let prefill_zeros = if run % 60_000 == 7 {
            (1u64 << 28) - 16 + r.below(64)
        } else if run % 120_000 == 11 {
            (1u64 << 32) - 16 + r.below(64)
        } else if run % 40_000 == 13 {
            // and a few against a seeded power of two in between (2^16 .. 2^31: the widths a position could be
            // narrowed to on the way -- u16, 24 bits, 28 bits, i32), straddled the same way
            (1u64 << r.urange(16, 31)) - 16 + r.below(64)
        } else {
            0
        };
        let mut regs = regs;
        if prefill_zeros > 0 {
            // purpose-built: every buffer-writing function once with JSONB arguments, then the text branches once, on
            // registers that hold one document of every kind (so that every writer has something to write)
            let mut m = std::collections::BTreeMap::new();
            m.insert("a".to_string(), MVal::U64(r.below(1000)));
            m.insert("k".to_string(), MVal::Arr(vec![MVal::Str("x".into()), MVal::Null, MVal::Bool(true)]));
            m.insert("z".to_string(), MVal::Obj([("n".to_string(), MVal::Null), ("s".to_string(), MVal::Str("v".into()))].into_iter().collect()));
            regs[0] = MVal::Obj(m.clone());
            regs[1] = MVal::Arr(vec![MVal::U64(1), MVal::Str("two".into()), MVal::Obj(m), MVal::Arr(vec![MVal::Null, MVal::I64(-3)]), MVal::U64(1)]);
            if regs.len() > 2 {
                regs[2] = if r.chance(1, 2) { MVal::Str("scalar".into()) } else { MVal::f(2.5) };
            }
            calls.clear();
            let all = OpGenCfg { kinds: BATCH_KINDS, vals: &vals, filters: true, fail_pct: 0 };
            for pass in [0, 0, 0, 1] {
                for kind in BATCH_KINDS {
                    let op = opgen::gen_op(&mut r, kind, &regs, &all);
                    let reads = op.reads();
                    let mut text_regs: Vec<usize> = vec![];
                    if pass == 1 {
                        if !(0..reads.len()).all(|p| op.arg_accepts_text(p) && !regs[reads[p]].has_nonfinite()) {
                            continue;
                        }
                        text_regs = reads.clone();
                        text_regs.dedup();
                    }
                    let expect_err = documented_error(&op, &regs);
                    calls.push(Call { op, text_regs, expect_err, bad_item: None, bad_text: None, warm: 0 });
                }
            }
            // the first such batch of a tier also appends a giant ITEM: a container of 2^28 bytes, one more than the
            // 28-bit length of an entry word can hold, handed to build_array and build_object last
            if run % 120_000 == 7 && prefill_zeros < (1u64 << 30) {
                regs.push(MVal::Arr(vec![MVal::Str("a".repeat((1usize << 28) - 1))]));
                let g = regs.len() - 1;
                for op in [Op::BuildArray { items: vec![1, g] }, Op::BuildObject { items: vec![("a".to_string(), 1), ("k".to_string(), g)] }] {
                    let expect_err = documented_error(&op, &regs);
                    calls.push(Call { op, text_regs: vec![], expect_err, bad_item: None, bad_text: None, warm: 0 });
                }
            }
        }
        let styles: Vec<TextStyle> = if styles.len() < regs.len() { styles.iter().copied().chain(std::iter::repeat(TextStyle::default())).take(regs.len()).collect() } else { styles };
        let reuse_selectors = r.chance(1, 2);
        let twins_last = r.chance(1, 2);
        Case { regs, styles, prefill, prefill_offsets, policy, calls, prefill_zeros, reuse_selectors, twins_last }
    }

    fn exec(&self, case: &Case, stats: &mut Stats) -> RunOut<Case> {
        if case.prefill_zeros > 0 {
            return exec_huge(case, stats);
        }
        let mut digest = Fnv::new();
        let mut violations: Vec<(Viol, Option<Case>)> = vec![];
        let mut data = case.prefill.clone();
        let mut offsets = case.prefill_offsets.clone();
        let bin: Vec<Vec<u8>> = case.regs.iter().map(mval::encode).collect();
        // compiled selectors, one per distinct (path, mode), built before the first call and kept to the end
        let sel_key = |op: &Op| match op {
            Op::Select { path, api, .. } => format!("{:?}/{}", path, api.mode()),
            _ => String::new(),
        };
        let mut selectors: std::collections::BTreeMap<String, jsonb::jsonpath::Selector<'static>> = Default::default();
        if case.reuse_selectors {
            for call in &case.calls {
                if let Some(sel) = ops::make_selector(&call.op) {
                    selectors.entry(sel_key(&call.op)).or_insert(sel);
                }
            }
        }
        // argument bytes of calls that do not use the plain JSONB registers (they must outlive the selectors' borrows)
        let own_args: Vec<Option<Vec<Vec<u8>>>> = case
            .calls
            .iter()
            .map(|call| {
                if call.text_regs.is_empty() && call.bad_item.is_none() && call.bad_text.is_none() {
                    None
                } else {
                    let mut a = Batch::args_for(case, call);
                    if let Some((_, bytes)) = &call.bad_item {
                        a.push(bytes.clone());
                    }
                    Some(a)
                }
            })
            .collect();
        let push = |v: Viol, violations: &mut Vec<(Viol, Option<Case>)>| {
            if !violations.iter().any(|(x, _)| x.class == v.class) {
                violations.push((v, None));
            }
        };
        struct Pending {
            ci: usize,
            out: LibOut,
            before_len: usize,
            appended: Vec<u8>,
            new_off: Vec<u64>,
            op_eff: Op,
        }
        let mut pending: Vec<Pending> = vec![];
        // The same call on a fresh, empty buffer (and a selector built for this call), compared with what the call did
        // to the shared buffer. Returns false when the batch is to stop (a violation was recorded).
        let judge = |p: &Pending, args: &[Vec<u8>], stats: &mut Stats, violations: &mut Vec<(Viol, Option<Case>)>| -> bool {
            let (ci, call) = (p.ci, &case.calls[p.ci]);
            let name = call.op.name();
            let mut fresh = Vec::new();
            let mut fresh_off = Vec::new();
            let out2 = match guard(|| ops::call(&p.op_eff, args, &case.regs, &mut fresh, &mut fresh_off)) {
                Err(pn) => {
                    push(Viol { class: format!("panic:{name}:{}", pn.loc), detail: format!("call {ci} ({name}) panicked at {}: {}", pn.loc, pn.msg) }, violations);
                    return false;
                }
                Ok(b) => b,
            };
            let out = &p.out;
            if *out != out2 {
                push(
                    Viol {
                        class: format!("outcome_depends_on_prior:{name}"),
                        detail: format!("call {ci} ({name}) returned {:?} on the shared buffer but {:?} on an empty one", out, out2),
                    },
                    violations,
                );
                return false;
            }
            match out {
                LibOut::Wrote(Ok(())) => {
                    if call.expect_err {
                        stats.inc("probe/constructed_error_did_not_fail");
                    }
                    // 2. appended bytes are exactly the fresh-buffer bytes
                    if p.appended[..] != fresh[..] {
                        push(
                            Viol {
                                class: format!("appended_differs:{name}"),
                                detail: format!(
                                    "call {ci} ({name}) appended {} bytes after {} prior bytes; the same call writes {} bytes into an empty buffer and they differ",
                                    p.appended.len(), p.before_len, fresh.len()
                                ),
                            },
                            violations,
                        );
                        return false;
                    }
                    // 4. offsets are positions in the shared buffer
                    let new_off = &p.new_off[..];
                    let want: Vec<u64> = fresh_off.iter().map(|o| o + p.before_len as u64).collect();
                    if new_off != want.as_slice() {
                        push(
                            Viol {
                                class: format!("offsets_not_buffer_positions:{name}"),
                                detail: format!("call {ci} ({name}) reported offsets {:?}; expected {:?} (empty-buffer offsets {:?} shifted by the {} prior bytes)", new_off, want, fresh_off, p.before_len),
                            },
                            violations,
                        );
                        return false;
                    }
                    if !new_off.is_empty() {
                        stats.inc("probe/offsets_reported");
                        let end = (p.before_len + p.appended.len()) as u64;
                        let mono = new_off.windows(2).all(|w| w[0] <= w[1]) && new_off[0] >= p.before_len as u64;
                        if !mono || *new_off.last().unwrap() != end {
                            push(
                                Viol {
                                    class: format!("offsets_do_not_delimit:{name}"),
                                    detail: format!("call {ci} ({name}) reported offsets {:?} for a buffer that grew from {} to {} bytes", new_off, p.before_len, end),
                                },
                                violations,
                            );
                            return false;
                        }
                        if p.before_len > 0 {
                            stats.inc("probe/offsets_reported_nonempty_prior");
                        }
                    }
                }
                LibOut::Wrote(Err(e)) => {
                    stats.inc2("errors", &format!("{name}:{e}"));
                    // 3. nothing is appended. Every argument of this call is valid, so an error it returns is one the function
                    // declares for valid input whether or not the batch was built to provoke it. (A text second argument
                    // next to a JSONB first one is read as JSONB by these functions -- a misuse, not valid input: exempt.)
                    let reads = call.op.reads();
                    let misuse = call.op.second_text_needs_first_text() && reads.len() == 2 && call.text_regs.contains(&reads[1]) && !call.text_regs.contains(&reads[0]);
                    if misuse {
                        stats.inc("probe/jsonb_first_text_second_call");
                    }
                    if !misuse && (!p.appended.is_empty() || !p.new_off.is_empty()) {
                        if !call.expect_err {
                            stats.inc("probe/unexpected_err");
                        }
                        push(
                            Viol {
                                class: format!("error_after_write:{name}:{e}"),
                                detail: format!("call {ci} ({name}) returned {e} on valid arguments but left {} new bytes / {} new offsets in the buffer", p.appended.len(), p.new_off.len()),
                            },
                            violations,
                        );
                        return false;
                    } else if call.expect_err {
                        stats.inc("probe/documented_error_injected");
                    } else {
                        stats.inc("probe/unexpected_err");
                    }
                }
                LibOut::Returned(_) => unreachable!("batch only drives buffer writers"),
            }
            true
        };
        for (ci, call) in case.calls.iter().enumerate() {
            let name = call.op.name();
            match case.policy {
                0 => data.shrink_to_fit(),
                1 => data.reserve(1 << 16),
                3 => {
                    data.shrink_to_fit();
                    data.reserve_exact(1 + (ci * 7 + data.len()) % 64);
                }
                _ => {
                    if ci % 2 == 0 {
                        data.shrink_to_fit()
                    } else {
                        data.reserve(4096)
                    }
                }
            }
            if data.capacity() == data.len() {
                stats.inc("probe/exact_fit_call");
            }
            let args: &[Vec<u8>] = own_args[ci].as_deref().unwrap_or(&bin);
            let op_eff = effective_op(call, case.regs.len());
            if call.bad_item.is_some() {
                stats.inc("probe/invalid_item_injected");
            }
            if call.bad_text.is_some() {
                stats.inc("probe/unparsable_text_injected");
            }
            let reused = selectors.get(&sel_key(&call.op)).filter(|_| matches!(&call.op, Op::Select { api, .. } if !api.accepts_text()));
            if reused.is_some() {
                stats.inc("probe/compiled_selector_reused");
            }
            let before = data.clone();
            let before_off = offsets.clone();
            let is_text = !call.text_regs.is_empty();
            stats.steps += 1;
            stats.inc2(if is_text { "calls_text" } else { "calls_binary" }, name);
            if !before.is_empty() {
                stats.inc2("calls_nonempty_prior", name);
                let mut h = Fnv::new();
                h.str(name);
                h.str(&format!("{:?}", call.op));
                for reg in call.op.reads() {
                    h.bytes(&args[reg]);
                }
                if stats.distinct.len() < 2_000_000 {
                    stats.distinct.insert(h.finish());
                }
            }
            // the call under test, on the shared buffer
            let out = guard(|| {
                ops::warm_selector(&op_eff, args, reused, call.warm);
                ops::call_with(&op_eff, args, &case.regs, &mut data, &mut offsets, reused)
            });
            let out = match out {
                // invalid input (an item that is not JSONB, unparsable text, a damaged row) owes the frame condition only
                Err(_) if call.bad_item.is_some() || call.bad_text.is_some() => {
                    stats.inc("probe/panic_on_invalid_input_recorded_not_judged");
                    LibOut::Wrote(Err("panicked".into()))
                }
                Err(p) => {
                    digest.str(&p.loc);
                    push(
                        Viol { class: format!("panic:{name}:{}", p.loc), detail: format!("call {ci} ({name}) panicked at {}: {}", p.loc, p.msg) },
                        &mut violations,
                    );
                    break;
                }
                Ok(a) => a,
            };
            digest.bytes(&data);
            digest.str(&format!("{:?}", out));
            // 1. nothing earlier was touched
            if data.len() < before.len() || data[..before.len()] != before[..] {
                let at = (0..before.len().min(data.len())).find(|i| data[*i] != before[*i]).unwrap_or(data.len().min(before.len()));
                push(
                    Viol {
                        class: format!("prior_bytes_modified:{name}"),
                        detail: format!("call {ci} ({name}) changed the buffer at position {at} of the {} bytes that were already there", before.len()),
                    },
                    &mut violations,
                );
                break;
            }
            if offsets.len() < before_off.len() || offsets[..before_off.len()] != before_off[..] {
                push(
                    Viol { class: format!("prior_offsets_modified:{name}"), detail: format!("call {ci} ({name}) changed offsets that were already there") },
                    &mut violations,
                );
                break;
            }
            if call.bad_item.is_some() || call.bad_text.is_some() {
                // an invalid item / unparsable text: the statement is about valid input; only the frame condition above is required
                if let LibOut::Wrote(Err(e)) = &out {
                    stats.inc2("errors", &format!("{name}:{e}({})", if call.bad_item.is_some() { "invalid item" } else { "unparsable text" }));
                }
                continue;
            }
            pending.push(Pending { ci, out, before_len: before.len(), appended: data[before.len()..].to_vec(), new_off: offsets[before_off.len()..].to_vec(), op_eff });
            // the empty-buffer twin runs right away, or -- in half the batches -- only after the whole batch, so that
            // consecutive calls on the shared buffer follow each other on the thread with nothing in between
            if !case.twins_last {
                let p = pending.pop().unwrap();
                if !judge(&p, own_args[ci].as_deref().unwrap_or(&bin), stats, &mut violations) {
                    break;
                }
            }
        }
        if violations.is_empty() {
            for p in &pending {
                if !judge(p, own_args[p.ci].as_deref().unwrap_or(&bin), stats, &mut violations) {
                    break;
                }
            }
        }
        stats.maxi("buffer_bytes", data.len() as u64);
        stats.maxi("calls_in_batch", case.calls.len() as u64);
        if !case.prefill.is_empty() {
            stats.inc("probe/prefilled_batch");
        }
        stats.sample(6, || {
            json!({"registers": case.regs.iter().map(mval::to_json).collect::<Vec<_>>(), "prefill_bytes": case.prefill.len(), "capacity_policy": case.policy,
                   "calls": case.calls.iter().take(6).map(|c| json!({"fn": c.op.name(), "text_regs": c.text_regs, "built_to_fail": c.expect_err})).collect::<Vec<_>>(),
                   "total_calls": case.calls.len()})
        });
        RunOut { digest: digest.finish(), violations }
    }

    fn shrink(&self, case: &Case) -> Vec<Case> {
        let mut out = vec![];
        // Candidates are materialised: a case that carries a giant register (256 MiB) gets a short list -- fewer calls,
        // then a smaller giant -- instead of hundreds of deep copies.
        let big = case.regs.iter().map(|r| r.approx_bytes()).sum::<usize>();
        if big > (32 << 20) {
            let n = case.calls.len();
            if n > 1 {
                for part in [&case.calls[n - 1..], &case.calls[n / 2..], &case.calls[..n / 2]] {
                    let mut c = case.clone();
                    c.calls = part.to_vec();
                    out.push(c);
                }
                for i in (0..n).rev().take(3) {
                    let mut c = case.clone();
                    c.calls.remove(i);
                    out.push(c);
                }
            } else {
                let (gi, _) = case.regs.iter().enumerate().max_by_key(|(_, r)| r.approx_bytes()).unwrap();
                for t in shrink::shrink_tree(&case.regs[gi]).into_iter().take(6) {
                    let mut c = case.clone();
                    c.regs[gi] = t;
                    for call in c.calls.iter_mut() {
                        call.expect_err = documented_error(&call.op, &c.regs);
                    }
                    out.push(c);
                }
            }
            return out;
        }
        // fewer calls
        if case.calls.len() > 1 {
            let n = case.calls.len();
            let mut c = case.clone();
            c.calls = case.calls[n / 2..].to_vec();
            out.push(c);
            let mut c = case.clone();
            c.calls = case.calls[..n / 2].to_vec();
            out.push(c);
            for i in 0..n {
                let mut c = case.clone();
                c.calls.remove(i);
                out.push(c);
            }
        }
        // simpler prior content (kept non-empty: the property is about non-empty buffers)
        if case.prefill.len() > 1 {
            let mut c = case.clone();
            c.prefill = vec![0xAA];
            out.push(c);
            let mut c = case.clone();
            c.prefill.truncate(case.prefill.len() / 2);
            out.push(c);
        }
        if !case.prefill.is_empty() {
            let mut c = case.clone();
            c.prefill.clear();
            out.push(c);
        }
        if !case.prefill_offsets.is_empty() {
            let mut c = case.clone();
            c.prefill_offsets.clear();
            out.push(c);
        }
        if case.policy != 1 {
            let mut c = case.clone();
            c.policy = 1;
            out.push(c);
        }
        if case.reuse_selectors {
            let mut c = case.clone();
            c.reuse_selectors = false;
            out.push(c);
        }
        if case.twins_last {
            let mut c = case.clone();
            c.twins_last = false;
            out.push(c);
        }
        // binary instead of text
        for i in 0..case.calls.len() {
            if !case.calls[i].text_regs.is_empty() {
                let mut c = case.clone();
                c.calls[i].text_regs.clear();
                out.push(c);
            }
        }
        for i in 0..case.calls.len() {
            if case.calls[i].bad_text.is_some() {
                let mut c = case.clone();
                c.calls[i].bad_text = None;
                out.push(c);
            }
        }
        // simpler documents (the expectation flags are recomputed)
        for i in 0..case.regs.len() {
            for t in shrink::shrink_tree(&case.regs[i]) {
                let mut c = case.clone();
                c.regs[i] = t;
                for call in c.calls.iter_mut() {
                    call.expect_err = documented_error(&call.op, &c.regs);
                }
                out.push(c);
            }
        }
        out
    }

    fn to_json(&self, case: &Case) -> J {
        json!({
            "registers": case.regs.iter().map(mval::to_replay).collect::<Vec<_>>(),
            "registers_json": case.regs.iter().map(mval::to_json).collect::<Vec<_>>(),
            "styles": case.styles.iter().map(mval::style_to_json).collect::<Vec<_>>(),
            "prefill_hex": mval::hex(&case.prefill),
            "prefill_offsets": case.prefill_offsets,
            "capacity_policy": case.policy,
            "prefill_zero_bytes": case.prefill_zeros,
            "reuse_selectors": case.reuse_selectors,
            "twins_last": case.twins_last,
            "calls": case.calls.iter().map(|c| json!({"call": c.op.to_json(), "text_regs": c.text_regs, "built_to_fail": c.expect_err, "warm": c.warm,
                "bad_item": c.bad_item.as_ref().map(|(p, b)| json!({"pos": p, "hex": mval::hex(b)})),
                "bad_text": c.bad_text.as_ref().map(|(p, b)| json!({"reg": p, "hex": mval::hex(b)}))})).collect::<Vec<_>>(),
        })
    }

    fn from_json(&self, j: &J) -> Result<Case, String> {
        let regs = j["registers"].as_array().ok_or("registers")?.iter().map(mval::from_replay).collect::<Result<Vec<_>, _>>()?;
        let styles = j["styles"]
            .as_array()
            .ok_or("styles")?
            .iter()
            .map(mval::style_from_json)
            .collect();
        let mut calls = vec![];
        for c in j["calls"].as_array().ok_or("calls")? {
            calls.push(Call {
                op: Op::from_json(&c["call"])?,
                text_regs: c["text_regs"].as_array().map(|a| a.iter().filter_map(|x| x.as_u64().map(|v| v as usize)).collect()).unwrap_or_default(),
                expect_err: c["built_to_fail"].as_bool().unwrap_or(false),
                warm: c["warm"].as_u64().unwrap_or(0) as u8,
                bad_item: match c.get("bad_item") {
                    Some(b) if b.is_object() => Some((b["pos"].as_u64().unwrap_or(0) as usize, mval::unhex(b["hex"].as_str().unwrap_or(""))?)),
                    _ => None,
                },
                bad_text: match c.get("bad_text") {
                    Some(b) if b.is_object() => Some((b["reg"].as_u64().unwrap_or(0) as usize, mval::unhex(b["hex"].as_str().unwrap_or(""))?)),
                    _ => None,
                },
            });
        }
        Ok(Case {
            regs,
            styles,
            prefill: mval::unhex(j["prefill_hex"].as_str().unwrap_or(""))?,
            prefill_offsets: j["prefill_offsets"].as_array().map(|a| a.iter().filter_map(|x| x.as_u64()).collect()).unwrap_or_default(),
            policy: j["capacity_policy"].as_u64().unwrap_or(1) as u8,
            calls,
            prefill_zeros: j["prefill_zero_bytes"].as_u64().unwrap_or(0),
            reuse_selectors: j["reuse_selectors"].as_bool().unwrap_or(false),
            twins_last: j["twins_last"].as_bool().unwrap_or(false),
        })
    }

    fn size(&self, case: &Case) -> J {
        json!({"calls": case.calls.len(), "prefill_bytes": case.prefill.len(), "register_nodes": case.regs.iter().map(|r| r.node_count()).sum::<usize>()})
    }

    fn rule(&self) -> String {
        "A case is a batch: 2-6 generated documents, an initial buffer content (empty / 0xAA filler / random bytes up to 512) and offsets, a capacity policy \
         (exact fit before every call, large reserve, alternating), and 1-40 calls drawn from a per-batch random subset of the buffer-writing functions, each \
         document argument independently passed as JSONB or JSON text where the function has a text branch, a seeded fraction built to fail for a documented reason; a handful of batches per tier start from a buffer of 2^28 resp. 2^32 zero bytes, and a few more from a seeded power of two between 2^16 and 2^31, each -16..+48 bytes (prefix checked in place). \
         Every call is executed on the shared buffer and, side by side, on an empty one. distinct_nontrivial = distinct (function, arguments) pairs, by 64-bit hash of \
         the call and its argument bytes, that were executed with a non-empty prior buffer."
            .into()
    }

    fn assumptions(&self) -> Vec<String> {
        vec![
            "the oracle for appended bytes is the function's own empty-buffer output, executed in the same run (what the statement says); semantic correctness of those bytes is not judged here".into(),
            "inputs are valid by construction (independent encoder / RFC 8259 writer); the text branch of two-document functions other than concat is entered through the first argument only -- in half the batches a text second argument is also passed next to a JSONB first one (the functions then read the text as JSONB): frame, outcome and appended-bytes conditions are judged there, the error clause is not".into(),
            "'documented reason' = wrong container kind for delete_by_name/delete_by_index/delete_by_keypath/object_*, duplicate key with update_flag=false; decided by the tree model".into(),
        ]
    }

    fn coverage_extra(&self, stats: &Stats) -> serde_json::Map<String, J> {
        let mut m = serde_json::Map::new();
        m.insert("calls_binary".into(), stats.group("calls_binary"));
        m.insert("calls_text".into(), stats.group("calls_text"));
        m.insert("calls_with_nonempty_prior_buffer".into(), stats.group("calls_nonempty_prior"));
        m.insert("errors_returned".into(), stats.group("errors"));
        m.insert(
            "fault_kinds".into(),
            json!({"documented_error_injected": stats.get("probe/documented_error_injected"), "invalid_item_injected (build_array/build_object, frame condition only)": stats.get("probe/invalid_item_injected"),
                   "unparsable_text_argument_injected (frame condition only; later calls judged in full)": stats.get("probe/unparsable_text_injected"), "compiled_selector_reused_across_calls": stats.get("probe/compiled_selector_reused"), "forced_reallocation_exact_fit": stats.get("probe/exact_fit_call"),
                   "prefilled_buffer": stats.get("probe/prefilled_batch")}),
        );
        m.insert(
            "components".into(),
            json!({"real": ["every buffer-writing pub fn of jsonb::functions", "Value::write_to_vec", "LazyValue::write_to_vec", "jsonpath::Selector::select"],
                   "simulated": ["the caller building a column: shared Vec<u8> + Vec<u64>, its prior content and capacity"], "stub": []}),
        );
        m
    }

    fn probes(&self) -> Vec<&'static str> {
        vec![
            "probe/documented_error_injected",
            "probe/exact_fit_call",
            "probe/prefilled_batch",
            "probe/offsets_reported",
            "probe/offsets_reported_nonempty_prior",
            "probe/invalid_item_injected",
            "probe/unparsable_text_injected",
            "probe/compiled_selector_reused",
            "probe/prior_buffer_256mib",
            "probe/prior_buffer_seeded_pow2",
            "probe/item_of_2pow28_bytes",
        ]
    }
}

#[allow(dead_code)]
fn _unused(_: &GenCfg) {}
