#!/usr/bin/env python3
"""Determinism proof: every scenario, N different VERIF_SEED values, each run twice in separate
processes -- once with 1 worker thread, once with 16 -- and the per-run event digests compared.
A run's digest covers every generated operation/fault and every observed result byte.
Exit 0 = identical everywhere, 2 = a divergence (harness error: nothing else may be believed)."""
import os, subprocess, sys, tempfile, shutil, concurrent.futures as cf

SIM = "/verif/sim/target/checked/sim"
N = int(sys.argv[1]) if len(sys.argv) > 1 else 40
# (scenario, --from, --runs): windows chosen to include sweeps (corrupt) and the planned grid (limits)
# (runs 0..8191 form one long block, executed on one thread: the windows straddle its end so that both kinds of block occur)
PLAN = [("chain", 7900, 700), ("batch", 8000, 500), ("corrupt", 150, 300), ("corrupt", 7800, 1200), ("limits", 0, 0)]

def one(args):
    scen, seed, frm, runs, threads, out = args
    cmd = [SIM, "inner", scen, "--seed", str(seed), "--from", str(frm), "--runs", str(runs),
           "--threads", str(threads), "--no-evidence", "--digest-out", out, "--replay-dir", os.path.dirname(out)]
    p = subprocess.run(cmd, stdout=subprocess.PIPE, stderr=subprocess.STDOUT, text=True)
    return (f"{scen}@{frm}", seed, threads, p.returncode, out)

def main():
    tmp = tempfile.mkdtemp(prefix="verif-det-")
    try:
        jobs = []
        for seed in range(1, N + 1):
            for scen, frm, runs in PLAN:
                if scen == "limits":
                    # child processes are expensive: a window of the fixed grid plus seeded cases, fewer seeds
                    if seed > max(2, N // 10):
                        continue
                    frm, runs = 2400, 520
                for threads in (1, 16):
                    jobs.append((scen, 1000 + seed * 7919, frm, runs, threads, f"{tmp}/{scen}-{frm}-{seed}-{threads}.dig"))
        results = {}
        with cf.ThreadPoolExecutor(max_workers=6) as ex:
            for scen, seed, threads, rc, out in ex.map(one, jobs):
                if rc not in (0, 1):
                    print(f"HARNESS-ERROR: {scen} seed={seed} threads={threads} exited {rc}")
                    return 2
                results[(scen, seed, threads)] = open(out).read()
        bad = 0
        pairs = 0
        runs = 0
        for (scen, seed, threads), txt in sorted(results.items()):
            if threads != 1:
                continue
            other = results[(scen, seed, 16)]
            pairs += 1
            runs += txt.count("\n")
            if txt != other:
                bad += 1
                a, b = txt.splitlines(), other.splitlines()
                diff = [i for i in range(min(len(a), len(b))) if a[i] != b[i]][:3]
                print(f"DIVERGENCE scenario={scen} seed={seed}: first differing runs {[a[i].split()[0] for i in diff]}")
        print(f"determinism: {pairs} (scenario, seed) pairs, {runs} runs each executed twice (1 worker vs 16 workers, separate processes); divergences: {bad}")
        return 2 if bad else 0
    finally:
        shutil.rmtree(tmp, ignore_errors=True)

sys.exit(main())
