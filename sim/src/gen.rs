//! Seeded generators shared by the scenarios.

use crate::mval::MVal;
use crate::rng::Rng;
use std::collections::BTreeMap;

#[derive(Clone, Copy, Debug, PartialEq, Eq)]
pub enum NumProfile {
    /// every representation and magnitude
    All,
    /// no integer beyond +-2^53 (so that int/float comparisons are exact)
    NoBigInt,
    /// no floats at all
    NoFloat,
}

#[derive(Clone, Debug)]
pub struct GenCfg {
    pub max_depth: usize,
    pub max_width: usize,
    pub nums: NumProfile,
    /// allow strings/keys up to 300 bytes and arrays up to 64 elements
    pub long: bool,
    /// allow NaN / +-Infinity
    pub nonfinite: bool,
    /// probability (out of 100) that a node at depth < max_depth is a container
    pub container_pct: u64,
}

impl GenCfg {
    pub fn small() -> GenCfg {
        GenCfg { max_depth: 3, max_width: 4, nums: NumProfile::All, long: false, nonfinite: false, container_pct: 45 }
    }
}

pub const STRINGS: &[&str] = &[
    "", "a", "b", "c", "k", "key", "Key", "KEY", "ke", "key2", "v", "abc", "ABC", "é", "日本", "😀", "a😀b",
    "a\"b", "a\\b", "line\nbreak", "tab\there", " lead", "trail ", "/", "</script>", "null", "true", "0", "10",
    "-1", "\u{7f}", "\u{80}", "\u{7ff}", "\u{800}", "\u{ffff}", "\u{10000}", "\u{1}", "ß", "ǅ", "\u{10ffff}", "\u{10fc00}", "\u{d7ff}", "\u{e000}",
    "x\u{10ffff}\n", "\u{0}", "a\u{0}b",
];

pub const KEYS: &[&str] = &[
    "a", "b", "c", "d", "A", "B", "k", "key", "Key", "KEY", "ke", "keys", "", "é", "名", "😀k", "a b", "a.b", "0",
    "1", "-1", "id", "ID", "Id", "x", "y", "z", "aa", "ab", "a\"q", "n\\s", "\u{0}", "\u{10ffff}",
];

const I64S: &[i64] = &[
    1, -1, 5, 10, -10, 127, 128, -128, -129, 255, 256, 32767, 32768, -32768, -32769, 65535, 65536, 2147483647,
    2147483648, -2147483648, -2147483649, 4294967295, 4294967296, 9007199254740992, -9007199254740992,
    9007199254740993, i64::MAX, i64::MIN, i64::MIN + 1,
];

const U64S: &[u64] = &[
    0, 1, 2, 5, 10, 127, 128, 255, 256, 65535, 65536, 4294967295, 4294967296, 9007199254740992,
    9007199254740993, 9223372036854775807, 9223372036854775808, u64::MAX,
];

const F64S: &[f64] = &[
    0.0, -0.0, 0.5, -1.5, 1.0, 2.0, 10.0, 1e300, -1e300, 5e-324, 2.2250738585072014e-308, 1.7976931348623157e308,
    0.1, 3.141592653589793, 9007199254740992.0, 1e15, 123456.789,
];

pub fn gen_number(r: &mut Rng, cfg: &GenCfg) -> MVal {
    let lim: i64 = 1 << 53;
    loop {
        let v = match r.below(10) {
            0..=3 => {
                if r.chance(1, 3) {
                    MVal::U64(r.below(1000))
                } else {
                    MVal::U64(*r.pick(U64S))
                }
            }
            4..=6 => {
                if r.chance(1, 3) {
                    MVal::I64(r.range(-1000, 1000))
                } else {
                    MVal::I64(*r.pick(I64S))
                }
            }
            _ => {
                if cfg.nonfinite && r.chance(1, 8) {
                    MVal::f(*r.pick(&[f64::NAN, f64::INFINITY, f64::NEG_INFINITY]))
                } else if r.chance(1, 4) {
                    MVal::f(r.range(-4000, 4000) as f64 / 8.0)
                } else if r.chance(1, 4) {
                    // a full 53-bit mantissa at a moderate magnitude: its shortest decimal form has 16-17 significant
                    // digits and no exponent, the case where a decimal-to-double shortcut is most likely to be off by one ulp
                    let m = (r.next_u64() >> 11) as f64 / (1u64 << 53) as f64;
                    // (1e20 / 1e21: written without an exponent these are 20- and 21-digit integer literals just beyond u64)
                    let scale = [1e-4, 1e-2, 1.0, 1e3, 1e7, 1e12, 1e15, 1e20, 1e21][r.idx(9)];
                    MVal::f(if r.chance(1, 4) { -(m * scale) } else { m * scale })
                } else {
                    MVal::f(*r.pick(F64S))
                }
            }
        };
        let ok = match (&v, cfg.nums) {
            (_, NumProfile::All) => true,
            (MVal::F64(_), NumProfile::NoFloat) => false,
            (MVal::I64(n), NumProfile::NoBigInt) => *n >= -lim && *n <= lim,
            (MVal::U64(n), NumProfile::NoBigInt) => *n <= lim as u64,
            _ => true,
        };
        if ok {
            return v.norm();
        }
    }
}

pub fn gen_string(r: &mut Rng, cfg: &GenCfg) -> String {
    if cfg.long && r.chance(1, 10) {
        let n = r.urange(17, 300);
        let mut s = String::new();
        let alphabet = ["a", "b", "Z", "0", " ", "é", "日", "😀", "\"", "\\"];
        while s.len() < n {
            s.push_str(*r.pick(&alphabet));
        }
        s
    } else if r.chance(1, 6) {
        // composed
        let mut s = String::new();
        for _ in 0..r.urange(1, 3) {
            s.push_str(*r.pick(STRINGS));
        }
        s
    } else {
        r.pick(STRINGS).to_string()
    }
}

pub fn gen_key(r: &mut Rng, cfg: &GenCfg) -> String {
    if cfg.long && r.chance(1, 20) {
        let n = r.urange(17, 300);
        let mut s = String::new();
        while s.len() < n {
            s.push_str(*r.pick(&["k", "e", "y", "_", "0", "é"]));
        }
        s
    } else if r.chance(1, 8) {
        format!("{}{}", r.pick(KEYS), r.pick(KEYS))
    } else {
        r.pick(KEYS).to_string()
    }
}

pub fn gen_scalar(r: &mut Rng, cfg: &GenCfg) -> MVal {
    match r.below(10) {
        0 => MVal::Null,
        1 => MVal::Bool(true),
        2 => MVal::Bool(false),
        3..=5 => MVal::Str(gen_string(r, cfg)),
        _ => gen_number(r, cfg),
    }
}

/// Values at the size boundaries where a narrowed length or count would first go wrong:
/// 255/256/257 and 65,535/65,536/65,537 bytes or elements.
pub fn gen_boundary_value(r: &mut Rng, cfg: &GenCfg) -> MVal {
    let small = |r: &mut Rng| -> MVal {
        match r.below(6) {
            0 => MVal::Null,
            1 => MVal::Bool(r.chance(1, 2)),
            2 => MVal::U64(r.below(300)),
            3 => MVal::Arr(vec![]),
            4 => MVal::Obj(Default::default()),
            _ => MVal::Str(r.pick(&["", "a", "é"]).to_string()),
        }
    };
    // the 65,536-element kinds cost milliseconds per call: one boundary value in six
    let kind = if r.chance(1, 6) { *r.pick(&[4u64, 6, 7]) } else { *r.pick(&[0u64, 1, 2, 3, 5, 8, 9, 10]) };
    match kind {
        10 => {
            // a list of records, each carrying an empty array and an empty object: hundreds of empty containers in one
            // document at no depth (where a per-document counter that is not decremented on the empty fast path runs out)
            let n = *r.pick(&[255usize, 256, 300, 600, 1100]);
            MVal::Arr(
                (0..n)
                    .map(|i| {
                        let mut m = BTreeMap::new();
                        m.insert("id".to_string(), MVal::U64(i as u64));
                        m.insert("tags".to_string(), MVal::Arr(vec![]));
                        m.insert("attrs".to_string(), MVal::Obj(Default::default()));
                        if i % 3 == 0 {
                            m.insert("name".to_string(), small(r));
                        }
                        MVal::Obj(m)
                    })
                    .collect(),
            )
        }
        7 => {
            // an object with 65,535 / 65,536 / 65,537 members
            let n = *r.pick(&[65_535usize, 65_536, 65_537]);
            MVal::Obj((0..n).map(|i| (format!("k{i:05}"), if i % 5 == 0 { MVal::Null } else { MVal::U64((i % 4) as u64) })).collect())
        }
        8 => {
            // a key of 65,535 / 65,536 / 65,537 bytes next to short ones
            let n = *r.pick(&[65_535usize, 65_536, 65_537]);
            let mut m = BTreeMap::new();
            m.insert("k".repeat(n), small(r));
            m.insert("a".to_string(), small(r));
            m.insert("z".to_string(), gen_scalar(r, cfg));
            MVal::Obj(m)
        }
        9 => {
            // a string in which every character needs an escape in JSON text: 255 / 256 / 257 / 65,536 escapes in one literal
            let n = *r.pick(&[255usize, 256, 257, 300, 512, 65_536]);
            MVal::Str(r.pick(&["\n", "\"", "\\", "\u{1}", "é"]).repeat(n))
        }
        6 => {
            // the same item 65,535 / 65,536 / 65,537 times: where a 16-bit occurrence count first goes wrong
            let n = *r.pick(&[65_535usize, 65_536, 65_537]);
            let item = small(r);
            MVal::Arr((0..n).map(|_| item.clone()).collect())
        }
        0 => {
            let n = *r.pick(&[255usize, 256, 257, 300]);
            MVal::Arr((0..n).map(|_| small(r)).collect())
        }
        1 => {
            let n = *r.pick(&[255usize, 256, 257]);
            MVal::Obj((0..n).map(|i| (format!("k{i:03}"), small(r))).collect())
        }
        2 => {
            let n = *r.pick(&[65_535usize, 65_536, 65_537, 70_000]);
            MVal::Str("x".repeat(n))
        }
        3 => {
            // a key of 256+ bytes and a neighbour sharing its first 255 bytes
            let base = "k".repeat(*r.pick(&[255usize, 256, 257]));
            let mut m = BTreeMap::new();
            m.insert(base.clone(), small(r));
            m.insert(format!("{base}z"), small(r));
            m.insert("a".to_string(), gen_scalar(r, cfg));
            MVal::Obj(m)
        }
        4 => {
            let n = *r.pick(&[65_535usize, 65_536, 65_537]);
            MVal::Arr((0..n).map(|i| if i % 7 == 0 { MVal::Null } else { MVal::U64((i % 3) as u64) }).collect())
        }
        _ => {
            // a container whose encoded size crosses 65,536 bytes nested inside another
            let inner = MVal::Arr(vec![MVal::Str("y".repeat(*r.pick(&[65_520usize, 65_530, 66_000]))), small(r)]);
            MVal::Arr(vec![small(r), inner, small(r)])
        }
    }
}

pub fn gen_value_at(r: &mut Rng, cfg: &GenCfg, depth: usize) -> MVal {
    if depth >= cfg.max_depth || !r.chance(cfg.container_pct, 100) {
        return gen_scalar(r, cfg);
    }
    let width = if cfg.long && r.chance(1, 12) {
        r.urange(cfg.max_width, 64)
    } else {
        r.urange(0, cfg.max_width)
    };
    if r.chance(1, 2) {
        let mut xs: Vec<MVal> = Vec::with_capacity(width);
        for _ in 0..width {
            // repeated elements make the set functions non-trivial
            if !xs.is_empty() && r.chance(1, 6) {
                let i = r.idx(xs.len());
                let d: MVal = xs[i].clone();
                xs.push(d);
            } else {
                xs.push(gen_value_at(r, cfg, depth + 1));
            }
        }
        MVal::Arr(xs)
    } else {
        let mut m = BTreeMap::new();
        for _ in 0..width {
            m.insert(gen_key(r, cfg), gen_value_at(r, cfg, depth + 1));
        }
        MVal::Obj(m)
    }
}

/// A whole document. `root_container_pct` biases the root towards containers.
pub fn gen_doc(r: &mut Rng, cfg: &GenCfg, root_container_pct: u64) -> MVal {
    // one long document in forty is narrow and 20-100 levels deep
    if cfg.long && r.chance(1, 40) {
        let d = r.urange(20, 100);
        return gen_deep_narrow(r, d);
    }
    // at most one size-boundary value per document, at the root or one level down
    if cfg.long && r.chance(1, 25) {
        let b = gen_boundary_value(r, cfg);
        return match r.below(3) {
            0 => b,
            1 => MVal::Arr(vec![gen_scalar(r, cfg), b, gen_scalar(r, cfg)]),
            _ => {
                let mut m = BTreeMap::new();
                m.insert("a".to_string(), gen_scalar(r, cfg));
                m.insert("big".to_string(), b);
                m.insert("z".to_string(), gen_scalar(r, cfg));
                MVal::Obj(m)
            }
        };
    }
    if r.chance(root_container_pct, 100) {
        let mut c = cfg.clone();
        c.container_pct = 100;
        let v = gen_value_at(r, &c, 0);
        // only the root is forced; rebuild children with the normal rate
        match v {
            MVal::Arr(xs) => MVal::Arr(xs.into_iter().map(|_| gen_value_at(r, cfg, 1)).collect()),
            MVal::Obj(m) => MVal::Obj(m.into_keys().map(|k| (k, gen_value_at(r, cfg, 1))).collect()),
            s => s,
        }
    } else {
        gen_value_at(r, cfg, 0)
    }
}

pub fn gen_text_style(r: &mut Rng) -> crate::mval::TextStyle {
    crate::mval::TextStyle {
        ws: r.below(4) as u8,
        escape_non_ascii: r.chance(1, 3),
        escape_slash: r.chance(1, 4),
        upper_hex: r.chance(1, 2),
        trail: if r.chance(1, 3) { r.below(4) as u8 } else { 0 },
        lead: if r.chance(1, 8) { r.below(4) as u8 } else { 0 },
        dup_keys: r.chance(1, 8),
        num_form: if r.chance(1, 3) { r.below(4) as u8 } else { 0 },
    }
}

/// ASCII case variant of a key (for ignore-case lookups).
pub fn case_variant(r: &mut Rng, k: &str) -> String {
    k.chars()
        .map(|c| {
            if c.is_ascii_alphabetic() && r.chance(1, 2) {
                if c.is_ascii_lowercase() { c.to_ascii_uppercase() } else { c.to_ascii_lowercase() }
            } else {
                c
            }
        })
        .collect()
}

/// A narrow, deep document: `depth` nested containers of width 1-2 with a scalar at the bottom.
/// Decoders that do work per level (or worse) only show it on shapes like this.
pub fn gen_deep_narrow(r: &mut Rng, depth: usize) -> MVal {
    let cfg = GenCfg::small();
    // the bottom is an object with a null member next to a real one, so that per-level editing (strip_nulls) has work to do
    let mut bottom = BTreeMap::new();
    bottom.insert("a".to_string(), MVal::Null);
    bottom.insert("b".to_string(), gen_scalar(r, &cfg));
    let mut v = if r.chance(1, 2) { MVal::Obj(bottom) } else { gen_scalar(r, &cfg) };
    for _ in 0..depth {
        v = if r.chance(1, 2) {
            let mut xs = vec![v];
            if r.chance(1, 3) {
                xs.insert(0, gen_scalar(r, &cfg));
            }
            MVal::Arr(xs)
        } else {
            let mut m = BTreeMap::new();
            m.insert(gen_key(r, &cfg), v);
            if r.chance(1, 3) {
                m.insert(gen_key(r, &cfg), gen_scalar(r, &cfg));
            }
            MVal::Obj(m)
        };
    }
    v
}

/// A document with one payload of 2^24 bytes or slightly more (the entry length field is 28 bits wide;
/// 2^24 is where a length narrowed to three bytes first goes wrong). About 16 MiB: used very rarely.
pub fn gen_huge_payload(r: &mut Rng) -> MVal {
    gen_huge_payload_bits(r, &[24])
}

/// A document with one payload of 2^b (+ a little) bytes, b drawn from `bits`: every high bit of the 28-bit length
/// field of an entry word set in turn.
pub fn gen_huge_payload_bits(r: &mut Rng, bits: &[u32]) -> MVal {
    let n = (1usize << *r.pick(bits)) + *r.pick(&[0usize, 1, 3, 300]);
    let big = MVal::Str("a".repeat(n));
    match r.below(4) {
        0 => big,
        1 => MVal::Arr(vec![big, MVal::U64(7)]),
        2 => {
            let mut m = BTreeMap::new();
            m.insert("k".to_string(), big);
            m.insert("z".to_string(), MVal::Bool(true));
            MVal::Obj(m)
        }
        // the nested *container* is what crosses 2^24 bytes
        _ => MVal::Arr(vec![MVal::Arr(vec![big, MVal::Null]), MVal::s("tail")]),
    }
}
