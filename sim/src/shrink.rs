//! Shrinking helpers shared by the scenarios.

use crate::mval::MVal;

/// Strictly simpler trees, most aggressive first.
pub fn shrink_tree(v: &MVal) -> Vec<MVal> {
    let mut out = vec![];
    match v {
        MVal::Arr(xs) => {
            // hoist a child
            for x in xs {
                out.push(x.clone());
            }
            if !xs.is_empty() {
                out.push(MVal::Arr(vec![]));
            }
            // drop halves, then single children
            if xs.len() > 2 {
                out.push(MVal::Arr(xs[..xs.len() / 2].to_vec()));
                out.push(MVal::Arr(xs[xs.len() / 2..].to_vec()));
            }
            for i in 0..xs.len() {
                let mut ys = xs.clone();
                ys.remove(i);
                out.push(MVal::Arr(ys));
            }
            for i in 0..xs.len() {
                for c in shrink_tree(&xs[i]) {
                    let mut ys = xs.clone();
                    ys[i] = c;
                    out.push(MVal::Arr(ys));
                }
            }
        }
        MVal::Obj(m) => {
            for x in m.values() {
                out.push(x.clone());
            }
            if !m.is_empty() {
                out.push(MVal::Obj(Default::default()));
            }
            for k in m.keys() {
                let mut n = m.clone();
                n.remove(k);
                out.push(MVal::Obj(n));
            }
            for (k, x) in m {
                for c in shrink_tree(x) {
                    let mut n = m.clone();
                    n.insert(k.clone(), c);
                    out.push(MVal::Obj(n));
                }
                // simpler key
                for nk in shrink_string(k) {
                    if !m.contains_key(&nk) {
                        let mut n = m.clone();
                        let val = n.remove(k).unwrap();
                        n.insert(nk, val);
                        out.push(MVal::Obj(n));
                    }
                }
            }
        }
        MVal::Str(s) => {
            for t in shrink_string(s) {
                out.push(MVal::Str(t));
            }
        }
        MVal::I64(n) => {
            for c in [0i64, 1, -1, n / 2] {
                if c != *n && c.unsigned_abs() < n.unsigned_abs() {
                    out.push(MVal::I64(c).norm());
                }
            }
        }
        MVal::U64(n) => {
            for c in [0u64, 1, n / 2] {
                if c < *n {
                    out.push(MVal::U64(c));
                }
            }
        }
        MVal::F64(b) => {
            let f = f64::from_bits(*b);
            for c in [0.0f64, 1.0, 0.5] {
                if c.to_bits() != *b && !(f.abs() <= c.abs()) {
                    out.push(MVal::f(c));
                }
            }
        }
        MVal::Bool(true) => out.push(MVal::Bool(false)),
        MVal::Bool(false) => out.push(MVal::Null),
        MVal::Null => {}
    }
    out
}

pub fn shrink_string(s: &str) -> Vec<String> {
    let mut out = vec![];
    if s.is_empty() {
        return out;
    }
    out.push(String::new());
    let chars: Vec<char> = s.chars().collect();
    if chars.len() > 1 {
        out.push(chars[..chars.len() / 2].iter().collect());
        out.push(chars[chars.len() / 2..].iter().collect());
        for i in 0..chars.len().min(8) {
            let mut c = chars.clone();
            c.remove(i);
            out.push(c.into_iter().collect());
        }
    }
    if chars.iter().any(|c| *c != 'a') {
        out.push(chars.iter().map(|_| 'a').collect());
    }
    out
}

/// ddmin-style candidates for a byte string: drop chunks, then zero bytes.
pub fn shrink_bytes(b: &[u8]) -> Vec<Vec<u8>> {
    let mut out = vec![];
    let n = b.len();
    if n == 0 {
        return out;
    }
    let mut chunk = n / 2;
    while chunk >= 1 {
        let mut start = 0;
        while start < n {
            let end = (start + chunk).min(n);
            let mut c = Vec::with_capacity(n - (end - start));
            c.extend_from_slice(&b[..start]);
            c.extend_from_slice(&b[end..]);
            out.push(c);
            start += chunk;
        }
        if chunk == 1 {
            break;
        }
        chunk /= 2;
    }
    for i in 0..n {
        if b[i] != 0 {
            let mut c = b.to_vec();
            c[i] = 0;
            out.push(c);
        }
    }
    out
}
