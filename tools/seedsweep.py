#!/usr/bin/env python3
"""Zero-alarm sweep on the unchanged tree: every check with N different VERIF_SEED values (reduced run counts),
expecting exit 0 each time. Any VIOLATION here is either a genuine defect or a false alarm and must be triaged.
usage: seedsweep.py [N=200] [--sim /path/to/sim]"""
import os, subprocess, sys, tempfile, shutil
args = sys.argv[1:]
N = int(args[0]) if args and args[0].isdigit() else 200
SIM = args[args.index("--sim") + 1] if "--sim" in args else "/verif/sim/target/checked/sim"
# the seeded cases of `limits` follow its fixed plan (quick tier = fixed + 400 runs; `check C20 quick` prints runs=0..N)
LIMITS_FIXED = int(os.environ.get("LIMITS_FIXED", "15388"))
PLAN = [("chain", ["--runs", "30000"]), ("batch", ["--runs", "15000"]), ("corrupt", ["--from", "180", "--runs", "60000"]), ("limits", ["--from", str(LIMITS_FIXED), "--runs", "150"])]
tmp = tempfile.mkdtemp(prefix="verif-seeds-")
bad = 0
try:
    for seed in range(2, N + 2):
        for scen, extra in PLAN:
            p = subprocess.run([SIM, "run", scen, "--seed", str(seed * 104729), "--no-evidence", "--replay-dir", f"{tmp}/rp"] + extra,
                               stdout=subprocess.PIPE, stderr=subprocess.STDOUT, text=True)
            if p.returncode != 0:
                bad += 1
                print(f"ALARM scenario={scen} VERIF_SEED={seed * 104729} exit={p.returncode}")
                print("\n".join(l for l in p.stdout.splitlines() if not l.startswith("KNOWN"))[-1500:], flush=True)
                for f in os.listdir(f"{tmp}/rp") if os.path.isdir(f"{tmp}/rp") else []:
                    shutil.copy(f"{tmp}/rp/{f}", f"./seedsweep-{f}")
        if seed % 20 == 0:
            print(f"... {seed - 1} seeds done, alarms so far: {bad}", flush=True)
    print(f"seedsweep: {N} seeds x {len(PLAN)} scenarios, alarms: {bad}")
    sys.exit(1 if bad else 0)
finally:
    shutil.rmtree(tmp, ignore_errors=True)
