//! Model value, plus an encoder and a strict validator for the JSONB layout that
//! share no code with /repo. The container/entry layout is taken from README.md;
//! the number payload (tag byte + big-endian magnitude, shortest width) from the
//! constants the README refers to.

use std::collections::BTreeMap;

#[derive(Clone, Debug, PartialEq, Eq, PartialOrd, Ord, Hash)]
pub enum MVal {
    Null,
    Bool(bool),
    I64(i64),
    U64(u64),
    /// f64 bit pattern; NaN is always the canonical quiet NaN.
    F64(u64),
    Str(String),
    Arr(Vec<MVal>),
    Obj(BTreeMap<String, MVal>),
}

pub const CANON_NAN: u64 = 0x7ff8_0000_0000_0000;

impl MVal {
    pub fn f(v: f64) -> MVal {
        if v.is_nan() {
            MVal::F64(CANON_NAN)
        } else {
            MVal::F64(v.to_bits())
        }
    }
    pub fn s(v: &str) -> MVal {
        MVal::Str(v.to_string())
    }
    pub fn is_scalar(&self) -> bool {
        !matches!(self, MVal::Arr(_) | MVal::Obj(_))
    }
    pub fn is_number(&self) -> bool {
        matches!(self, MVal::I64(_) | MVal::U64(_) | MVal::F64(_))
    }

    /// The value a decoder hands back for the encoding of `self`: the zero tag
    /// carries no signedness, so a signed zero integer reads back as unsigned.
    pub fn norm(&self) -> MVal {
        match self {
            MVal::I64(0) => MVal::U64(0),
            MVal::F64(b) if f64::from_bits(*b).is_nan() => MVal::F64(CANON_NAN),
            MVal::Arr(xs) => MVal::Arr(xs.iter().map(|x| x.norm()).collect()),
            MVal::Obj(m) => MVal::Obj(m.iter().map(|(k, v)| (k.clone(), v.norm())).collect()),
            other => other.clone(),
        }
    }

    /// The value the text denotes under the parser's documented classification:
    /// non-negative integers are unsigned, negative integers signed.
    pub fn text_norm(&self) -> MVal {
        match self {
            MVal::I64(v) if *v >= 0 => MVal::U64(*v as u64),
            MVal::Arr(xs) => MVal::Arr(xs.iter().map(|x| x.text_norm()).collect()),
            MVal::Obj(m) => MVal::Obj(
                m.iter()
                    .map(|(k, v)| (k.clone(), v.text_norm()))
                    .collect(),
            ),
            other => other.clone(),
        }
    }

    pub fn depth(&self) -> usize {
        match self {
            MVal::Arr(xs) => 1 + xs.iter().map(|x| x.depth()).max().unwrap_or(0),
            MVal::Obj(m) => 1 + m.values().map(|x| x.depth()).max().unwrap_or(0),
            _ => 0,
        }
    }

    /// Rough heap footprint: string and key bytes plus a word per node.
    pub fn approx_bytes(&self) -> usize {
        match self {
            MVal::Str(s) => 24 + s.len(),
            MVal::Arr(xs) => 24 + xs.iter().map(|x| x.approx_bytes()).sum::<usize>(),
            MVal::Obj(m) => 24 + m.iter().map(|(k, v)| 24 + k.len() + v.approx_bytes()).sum::<usize>(),
            _ => 16,
        }
    }
    pub fn node_count(&self) -> usize {
        match self {
            MVal::Arr(xs) => 1 + xs.iter().map(|x| x.node_count()).sum::<usize>(),
            MVal::Obj(m) => 1 + m.values().map(|x| x.node_count()).sum::<usize>(),
            _ => 1,
        }
    }

    pub fn has_nonfinite(&self) -> bool {
        match self {
            MVal::F64(b) => !f64::from_bits(*b).is_finite(),
            MVal::Arr(xs) => xs.iter().any(|x| x.has_nonfinite()),
            MVal::Obj(m) => m.values().any(|x| x.has_nonfinite()),
            _ => false,
        }
    }

    /// Every scalar in the tree, document order.
    pub fn scalars<'a>(&'a self, out: &mut Vec<&'a MVal>) {
        match self {
            MVal::Arr(xs) => xs.iter().for_each(|x| x.scalars(out)),
            MVal::Obj(m) => m.values().for_each(|x| x.scalars(out)),
            s => out.push(s),
        }
    }

    /// Every object key in the tree.
    pub fn keys<'a>(&'a self, out: &mut Vec<&'a str>) {
        match self {
            MVal::Arr(xs) => xs.iter().for_each(|x| x.keys(out)),
            MVal::Obj(m) => m.iter().for_each(|(k, v)| {
                out.push(k.as_str());
                v.keys(out)
            }),
            _ => {}
        }
    }
}

// ---------------------------------------------------------------------------
// Encoder (README layout)
// ---------------------------------------------------------------------------

const H_SCALAR: u32 = 0x2000_0000;
const H_OBJECT: u32 = 0x4000_0000;
const H_ARRAY: u32 = 0x8000_0000;
const E_NULL: u32 = 0x0000_0000;
const E_STRING: u32 = 0x1000_0000;
const E_NUMBER: u32 = 0x2000_0000;
const E_FALSE: u32 = 0x3000_0000;
const E_TRUE: u32 = 0x4000_0000;
const E_CONTAINER: u32 = 0x5000_0000;

fn put32(out: &mut Vec<u8>, v: u32) {
    out.extend_from_slice(&v.to_be_bytes());
}

pub fn encode_number(v: &MVal) -> Vec<u8> {
    match v {
        MVal::I64(0) | MVal::U64(0) => vec![0x00],
        MVal::I64(n) => {
            let n = *n;
            let mut o = vec![0x40];
            if n >= -128 && n <= 127 {
                o.extend_from_slice(&(n as i8).to_be_bytes());
            } else if n >= -32768 && n <= 32767 {
                o.extend_from_slice(&(n as i16).to_be_bytes());
            } else if n >= -(1i64 << 31) && n <= (1i64 << 31) - 1 {
                o.extend_from_slice(&(n as i32).to_be_bytes());
            } else {
                o.extend_from_slice(&n.to_be_bytes());
            }
            o
        }
        MVal::U64(n) => {
            let n = *n;
            let mut o = vec![0x50];
            if n <= 0xff {
                o.push(n as u8);
            } else if n <= 0xffff {
                o.extend_from_slice(&(n as u16).to_be_bytes());
            } else if n <= 0xffff_ffff {
                o.extend_from_slice(&(n as u32).to_be_bytes());
            } else {
                o.extend_from_slice(&n.to_be_bytes());
            }
            o
        }
        MVal::F64(bits) => {
            let f = f64::from_bits(*bits);
            if f.is_nan() {
                vec![0x10]
            } else if f == f64::INFINITY {
                vec![0x20]
            } else if f == f64::NEG_INFINITY {
                vec![0x30]
            } else {
                let mut o = vec![0x60];
                o.extend_from_slice(&bits.to_be_bytes());
                o
            }
        }
        _ => unreachable!("encode_number on non-number"),
    }
}

/// Returns (entry word, payload) for a value nested in a container.
fn encode_item(v: &MVal) -> (u32, Vec<u8>) {
    match v {
        MVal::Null => (E_NULL, vec![]),
        MVal::Bool(true) => (E_TRUE, vec![]),
        MVal::Bool(false) => (E_FALSE, vec![]),
        MVal::Str(s) => (E_STRING | s.len() as u32, s.as_bytes().to_vec()),
        MVal::I64(_) | MVal::U64(_) | MVal::F64(_) => {
            let p = encode_number(v);
            (E_NUMBER | p.len() as u32, p)
        }
        MVal::Arr(_) | MVal::Obj(_) => {
            let p = encode_container(v);
            (E_CONTAINER | p.len() as u32, p)
        }
    }
}

fn encode_container(v: &MVal) -> Vec<u8> {
    let mut out = Vec::new();
    match v {
        MVal::Arr(xs) => {
            put32(&mut out, H_ARRAY | xs.len() as u32);
            let items: Vec<(u32, Vec<u8>)> = xs.iter().map(encode_item).collect();
            for (e, _) in &items {
                put32(&mut out, *e);
            }
            for (_, p) in &items {
                out.extend_from_slice(p);
            }
        }
        MVal::Obj(m) => {
            put32(&mut out, H_OBJECT | m.len() as u32);
            for k in m.keys() {
                put32(&mut out, E_STRING | k.len() as u32);
            }
            let items: Vec<(u32, Vec<u8>)> = m.values().map(encode_item).collect();
            for (e, _) in &items {
                put32(&mut out, *e);
            }
            for k in m.keys() {
                out.extend_from_slice(k.as_bytes());
            }
            for (_, p) in &items {
                out.extend_from_slice(p);
            }
        }
        _ => unreachable!(),
    }
    out
}

/// Canonical JSONB encoding of a whole document.
pub fn encode(v: &MVal) -> Vec<u8> {
    match v {
        MVal::Arr(_) | MVal::Obj(_) => encode_container(v),
        s => {
            let mut out = Vec::new();
            put32(&mut out, H_SCALAR);
            let (e, p) = encode_item(s);
            put32(&mut out, e);
            out.extend_from_slice(&p);
            out
        }
    }
}

// ---------------------------------------------------------------------------
// Strict validator + layout map
// ---------------------------------------------------------------------------

#[derive(Clone, Debug, PartialEq, Eq)]
pub enum FieldKind {
    /// container header word; `count` entries
    Header { kind: u8, count: u32 },
    /// entry word. role: 0 = root scalar entry, 1 = array element, 2 = object key, 3 = object value
    Entry { role: u8, ty: u32, len: u32, payload: usize },
    /// number payload (tag byte at `off`)
    Number,
    /// string or key payload
    Text { is_key: bool },
}

#[derive(Clone, Debug, PartialEq, Eq)]
pub struct Field {
    pub off: usize,
    pub len: usize,
    pub depth: usize,
    pub kind: FieldKind,
}

fn get32(b: &[u8], off: usize) -> Result<u32, String> {
    b.get(off..off + 4)
        .map(|s| u32::from_be_bytes([s[0], s[1], s[2], s[3]]))
        .ok_or_else(|| format!("word at {off} past end ({})", b.len()))
}

fn decode_number_strict(p: &[u8], at: usize) -> Result<MVal, String> {
    if p.is_empty() {
        return Err(format!("empty number payload at {at}"));
    }
    let body = &p[1..];
    let v = match p[0] {
        0x00 if body.is_empty() => MVal::U64(0),
        0x10 if body.is_empty() => MVal::F64(CANON_NAN),
        0x20 if body.is_empty() => MVal::f(f64::INFINITY),
        0x30 if body.is_empty() => MVal::f(f64::NEG_INFINITY),
        0x40 => {
            let n: i64 = match body.len() {
                1 => i8::from_be_bytes([body[0]]) as i64,
                2 => i16::from_be_bytes([body[0], body[1]]) as i64,
                4 => i32::from_be_bytes(body.try_into().unwrap()) as i64,
                8 => i64::from_be_bytes(body.try_into().unwrap()),
                n => return Err(format!("signed width {n} at {at}")),
            };
            MVal::I64(n)
        }
        0x50 => {
            let n: u64 = match body.len() {
                1 => body[0] as u64,
                2 => u16::from_be_bytes([body[0], body[1]]) as u64,
                4 => u32::from_be_bytes(body.try_into().unwrap()) as u64,
                8 => u64::from_be_bytes(body.try_into().unwrap()),
                n => return Err(format!("unsigned width {n} at {at}")),
            };
            MVal::U64(n)
        }
        0x60 if body.len() == 8 => {
            let bits = u64::from_be_bytes(body.try_into().unwrap());
            if !f64::from_bits(bits).is_finite() {
                return Err(format!("non-finite double under the float tag at {at}"));
            }
            MVal::F64(bits)
        }
        t => return Err(format!("number tag {t:#04x} with {} payload bytes at {at}", body.len())),
    };
    // shortest form: re-encoding must reproduce the payload
    if encode_number(&v) != p {
        return Err(format!("number at {at} is not in its shortest form"));
    }
    Ok(v)
}

struct Walker<'a> {
    b: &'a [u8],
    fields: Option<Vec<Field>>,
}

impl<'a> Walker<'a> {
    fn rec(&mut self, f: Field) {
        if let Some(fs) = self.fields.as_mut() {
            fs.push(f);
        }
    }

    fn item(&mut self, ty: u32, len: usize, off: usize, depth: usize) -> Result<MVal, String> {
        let end = off
            .checked_add(len)
            .filter(|e| *e <= self.b.len())
            .ok_or_else(|| format!("payload {off}+{len} past end"))?;
        let p = &self.b[off..end];
        match ty {
            E_NULL | E_TRUE | E_FALSE => {
                if len != 0 {
                    return Err(format!("null/bool entry with length {len}"));
                }
                Ok(match ty {
                    E_NULL => MVal::Null,
                    E_TRUE => MVal::Bool(true),
                    _ => MVal::Bool(false),
                })
            }
            E_STRING => {
                let s = std::str::from_utf8(p).map_err(|e| format!("string at {off}: {e}"))?;
                self.rec(Field { off, len, depth, kind: FieldKind::Text { is_key: false } });
                Ok(MVal::Str(s.to_string()))
            }
            E_NUMBER => {
                self.rec(Field { off, len, depth, kind: FieldKind::Number });
                decode_number_strict(p, off)
            }
            E_CONTAINER => {
                let (v, used) = self.container(off, depth)?;
                if used != len {
                    return Err(format!(
                        "container entry length {len} but nested container at {off} occupies {used}"
                    ));
                }
                Ok(v)
            }
            t => Err(format!("entry type {t:#010x}")),
        }
    }

    /// Parses an array/object container at `off`; returns value and bytes used.
    fn container(&mut self, off: usize, depth: usize) -> Result<(MVal, usize), String> {
        let h = get32(self.b, off)?;
        let count = (h & 0x1fff_ffff) as usize;
        match h & 0xe000_0000 {
            H_ARRAY => {
                self.rec(Field { off, len: 4, depth, kind: FieldKind::Header { kind: 0x80, count: count as u32 } });
                if count.checked_mul(4).map_or(true, |n| off + 4 + n > self.b.len()) {
                    return Err(format!("array at {off}: {count} entries past end"));
                }
                let mut pos = off + 4 + 4 * count;
                let mut xs = Vec::with_capacity(count);
                for i in 0..count {
                    let eoff = off + 4 + 4 * i;
                    let e = get32(self.b, eoff)?;
                    if e & 0x8000_0000 != 0 {
                        return Err(format!("entry at {eoff} has the offset flag set"));
                    }
                    let (ty, len) = (e & 0x7000_0000, (e & 0x0fff_ffff) as usize);
                    self.rec(Field { off: eoff, len: 4, depth, kind: FieldKind::Entry { role: 1, ty, len: len as u32, payload: pos } });
                    xs.push(self.item(ty, len, pos, depth + 1)?);
                    pos += len;
                }
                Ok((MVal::Arr(xs), pos - off))
            }
            H_OBJECT => {
                self.rec(Field { off, len: 4, depth, kind: FieldKind::Header { kind: 0x40, count: count as u32 } });
                if count.checked_mul(8).map_or(true, |n| off + 4 + n > self.b.len()) {
                    return Err(format!("object at {off}: {count} pairs past end"));
                }
                let mut pos = off + 4 + 8 * count;
                let mut keys: Vec<String> = Vec::with_capacity(count);
                for i in 0..count {
                    let eoff = off + 4 + 4 * i;
                    let e = get32(self.b, eoff)?;
                    if e & 0xf000_0000 != E_STRING {
                        return Err(format!("key entry at {eoff} is not a string entry ({e:#010x})"));
                    }
                    let len = (e & 0x0fff_ffff) as usize;
                    self.rec(Field { off: eoff, len: 4, depth, kind: FieldKind::Entry { role: 2, ty: E_STRING, len: len as u32, payload: pos } });
                    let p = self
                        .b
                        .get(pos..pos + len)
                        .ok_or_else(|| format!("key payload {pos}+{len} past end"))?;
                    let k = std::str::from_utf8(p).map_err(|e| format!("key at {pos}: {e}"))?;
                    self.rec(Field { off: pos, len, depth: depth + 1, kind: FieldKind::Text { is_key: true } });
                    if let Some(prev) = keys.last() {
                        if prev.as_str() >= k {
                            return Err(format!("keys not strictly increasing: {prev:?} then {k:?}"));
                        }
                    }
                    keys.push(k.to_string());
                    pos += len;
                }
                let mut m = BTreeMap::new();
                for (i, k) in keys.into_iter().enumerate() {
                    let eoff = off + 4 + 4 * (count + i);
                    let e = get32(self.b, eoff)?;
                    if e & 0x8000_0000 != 0 {
                        return Err(format!("entry at {eoff} has the offset flag set"));
                    }
                    let (ty, len) = (e & 0x7000_0000, (e & 0x0fff_ffff) as usize);
                    self.rec(Field { off: eoff, len: 4, depth, kind: FieldKind::Entry { role: 3, ty, len: len as u32, payload: pos } });
                    let v = self.item(ty, len, pos, depth + 1)?;
                    m.insert(k, v);
                    pos += len;
                }
                Ok((MVal::Obj(m), pos - off))
            }
            other => Err(format!("container header {other:#010x} at {off}")),
        }
    }

    fn document(&mut self) -> Result<MVal, String> {
        let h = get32(self.b, 0)?;
        if h == H_SCALAR {
            self.rec(Field { off: 0, len: 4, depth: 0, kind: FieldKind::Header { kind: 0x20, count: 0 } });
            let e = get32(self.b, 4)?;
            if e & 0x8000_0000 != 0 {
                return Err("root entry has the offset flag set".into());
            }
            let (ty, len) = (e & 0x7000_0000, (e & 0x0fff_ffff) as usize);
            if ty == E_CONTAINER {
                return Err("container entry under a scalar header".into());
            }
            self.rec(Field { off: 4, len: 4, depth: 0, kind: FieldKind::Entry { role: 0, ty, len: len as u32, payload: 8 } });
            let v = self.item(ty, len, 8, 1)?;
            if 8 + len != self.b.len() {
                return Err(format!("{} trailing bytes", self.b.len() - 8 - len));
            }
            Ok(v)
        } else if h & 0xe000_0000 == H_SCALAR {
            Err(format!("scalar header {h:#010x} is not 0x20000000"))
        } else {
            let (v, used) = self.container(0, 0)?;
            if used != self.b.len() {
                return Err(format!("{} trailing bytes", self.b.len() - used));
            }
            Ok(v)
        }
    }
}

/// Strict inverse of `encode`: accepts exactly the byte strings `encode` can emit.
pub fn validate(b: &[u8]) -> Result<MVal, String> {
    let mut w = Walker { b, fields: None };
    let v = w.document()?;
    debug_assert_eq!(encode(&v), b);
    Ok(v)
}

/// Layout map of a canonical encoding (panics if `b` is not canonical).
pub fn layout(b: &[u8]) -> Vec<Field> {
    let mut w = Walker { b, fields: Some(Vec::new()) };
    w.document().expect("layout of a non-canonical encoding");
    w.fields.unwrap()
}

// ---------------------------------------------------------------------------
// JSON text
// ---------------------------------------------------------------------------

fn write_string_plain(s: &str, out: &mut String) {
    out.push('"');
    for c in s.chars() {
        match c {
            '"' => out.push_str("\\\""),
            '\\' => out.push_str("\\\\"),
            '\n' => out.push_str("\\n"),
            '\r' => out.push_str("\\r"),
            '\t' => out.push_str("\\t"),
            '\u{08}' => out.push_str("\\b"),
            '\u{0c}' => out.push_str("\\f"),
            c if (c as u32) < 0x20 => out.push_str(&format!("\\u{:04x}", c as u32)),
            c => out.push(c),
        }
    }
    out.push('"');
}

pub fn number_text(v: &MVal) -> String {
    match v {
        MVal::I64(n) => n.to_string(),
        MVal::U64(n) => n.to_string(),
        MVal::F64(b) => {
            let f = f64::from_bits(*b);
            if f.is_nan() {
                "NaN".into()
            } else if f.is_infinite() {
                if f > 0.0 { "Infinity".into() } else { "-Infinity".into() }
            } else {
                // {:?} always carries a fraction or an exponent and round-trips
                format!("{:?}", f)
            }
        }
        _ => unreachable!(),
    }
}

/// Compact rendering for humans and replay files (not fed to the library).
pub fn to_json(v: &MVal) -> String {
    let mut s = String::new();
    write_json(v, &mut s);
    s
}

fn write_json(v: &MVal, out: &mut String) {
    match v {
        MVal::Null => out.push_str("null"),
        MVal::Bool(b) => out.push_str(if *b { "true" } else { "false" }),
        MVal::I64(n) => {
            // keep the representation visible: signed non-negative is written with a '+'
            // marker only in this human rendering
            if *n >= 0 {
                out.push_str(&format!("{n}i"));
            } else {
                out.push_str(&n.to_string());
            }
        }
        MVal::U64(_) | MVal::F64(_) => out.push_str(&number_text(v)),
        MVal::Str(s) => write_string_plain(s, out),
        MVal::Arr(xs) => {
            out.push('[');
            for (i, x) in xs.iter().enumerate() {
                if i > 0 {
                    out.push(',');
                }
                write_json(x, out);
            }
            out.push(']');
        }
        MVal::Obj(m) => {
            out.push('{');
            for (i, (k, x)) in m.iter().enumerate() {
                if i > 0 {
                    out.push(',');
                }
                write_string_plain(k, out);
                out.push(':');
                write_json(x, out);
            }
            out.push('}');
        }
    }
}

/// Style knobs for text fed to the library (all choices RFC 8259-valid).
#[derive(Clone, Copy, Debug, Default)]
pub struct TextStyle {
    /// 0 none, 1 single spaces after ',' and ':', 2 mixed whitespace incl. newlines/tabs (also before ':' and before
    /// some ','), 3 one space on BOTH sides of every ',' and ':' ("[1 , 2]", comma-first layouts)
    pub ws: u8,
    /// escape every non-ASCII char as \uXXXX (surrogate pairs above the BMP)
    pub escape_non_ascii: bool,
    /// write '/' as "\/"
    pub escape_slash: bool,
    /// upper-case hex digits in \u escapes
    pub upper_hex: bool,
    /// whitespace after the root value: 0 none, 1 "\n", 2 " ", 3 "\r\n\t "
    pub trail: u8,
    /// whitespace before the root value, never a space (which the format cannot tell from a scalar header): 0 none, 1 "\n", 2 "\t", 3 "\r\n"
    pub lead: u8,
    /// objects are written with their first key duplicated up front (`{"k":null,"k":<real>}`, the first spelling
    /// optionally \u-escaped): the last occurrence wins, so the denoted value is unchanged
    pub dup_keys: bool,
    /// how doubles are written: 0 shortest with a fraction ("0.5", "1e300"), 1 exponent form ("5e-1"), 2 upper-case exponent with sign ("5E-1", "1E+300")
    pub num_form: u8,
}

pub fn style_to_json(s: &TextStyle) -> serde_json::Value {
    serde_json::json!({"ws": s.ws, "escape_non_ascii": s.escape_non_ascii, "escape_slash": s.escape_slash, "upper_hex": s.upper_hex, "trail": s.trail, "lead": s.lead, "num_form": s.num_form, "dup_keys": s.dup_keys})
}

pub fn style_from_json(j: &serde_json::Value) -> TextStyle {
    TextStyle {
        ws: j["ws"].as_u64().unwrap_or(0) as u8,
        escape_non_ascii: j["escape_non_ascii"].as_bool().unwrap_or(false),
        escape_slash: j["escape_slash"].as_bool().unwrap_or(false),
        upper_hex: j["upper_hex"].as_bool().unwrap_or(false),
        trail: j["trail"].as_u64().unwrap_or(0) as u8,
        lead: j["lead"].as_u64().unwrap_or(0) as u8,
        dup_keys: j["dup_keys"].as_bool().unwrap_or(false),
        num_form: j["num_form"].as_u64().unwrap_or(0) as u8,
    }
}

fn float_text(f: f64, form: u8) -> String {
    match form {
        1 => format!("{:e}", f),
        // plain decimal expansion without an exponent: integers beyond the u64 range come out as long digit strings
        3 => {
            let t = format!("{}", f);
            // Display prints "-0" for negative zero, which reads back as an integer zero: keep the fraction
            if t == "-0" || t == "0" { format!("{:?}", f) } else if t.contains('.') || f.abs() >= 1.8446744073709552e19 { t } else { format!("{:?}", f) }
        }
        2 => {
            let s = format!("{:E}", f);
            // "1E300" -> "1E+300": an explicit plus sign is valid JSON
            match s.find('E') {
                Some(i) if !s[i + 1..].starts_with('-') => format!("{}E+{}", &s[..i], &s[i + 1..]),
                _ => s,
            }
        }
        _ => format!("{:?}", f),
    }
}

fn write_string_styled(s: &str, st: &TextStyle, out: &mut String) {
    out.push('"');
    for c in s.chars() {
        match c {
            '"' => out.push_str("\\\""),
            '\\' => out.push_str("\\\\"),
            '\n' => out.push_str("\\n"),
            '\r' => out.push_str("\\r"),
            '\t' => out.push_str("\\t"),
            '\u{08}' => out.push_str("\\b"),
            '\u{0c}' => out.push_str("\\f"),
            '/' if st.escape_slash => out.push_str("\\/"),
            c if (c as u32) < 0x20 || (st.escape_non_ascii && (c as u32) >= 0x7f) => {
                let mut buf = [0u16; 2];
                for u in c.encode_utf16(&mut buf) {
                    if st.upper_hex {
                        out.push_str(&format!("\\u{:04X}", u));
                    } else {
                        out.push_str(&format!("\\u{:04x}", u));
                    }
                }
            }
            c => out.push(c),
        }
    }
    out.push('"');
}

fn ws(st: &TextStyle, slot: usize, out: &mut String) {
    match st.ws {
        0 => {}
        1 | 3 => out.push(' '),
        _ => out.push_str(["", " ", "\n", "\t ", "  ", "\r\n"][slot % 6]),
    }
}

/// RFC 8259 text for a tree without NaN/Inf. Never starts with whitespace.
pub fn to_text(v: &MVal, st: &TextStyle) -> String {
    let mut s = String::from(["", "\n", "\t", "\r\n"][(st.lead % 4) as usize]);
    let mut slot = 0usize;
    write_text(v, st, &mut slot, &mut s);
    s.push_str(["", "\n", " ", "\r\n\t "][(st.trail % 4) as usize]);
    s
}

fn write_text(v: &MVal, st: &TextStyle, slot: &mut usize, out: &mut String) {
    match v {
        MVal::Null => out.push_str("null"),
        MVal::Bool(b) => out.push_str(if *b { "true" } else { "false" }),
        MVal::F64(b) if st.num_form != 0 && f64::from_bits(*b).is_finite() => out.push_str(&float_text(f64::from_bits(*b), st.num_form)),
        MVal::I64(_) | MVal::U64(_) | MVal::F64(_) => out.push_str(&number_text(v)),
        MVal::Str(s) => write_string_styled(s, st, out),
        MVal::Arr(xs) => {
            out.push('[');
            for (i, x) in xs.iter().enumerate() {
                if i > 0 {
                    if st.ws == 3 || (st.ws == 2 && *slot % 3 == 0) {
                        ws(st, *slot + 4, out);
                    }
                    out.push(',');
                }
                *slot += 1;
                ws(st, *slot, out);
                write_text(x, st, slot, out);
            }
            *slot += 1;
            if !xs.is_empty() {
                ws(st, *slot + 1, out);
            }
            out.push(']');
        }
        MVal::Obj(m) => {
            out.push('{');
            if st.dup_keys {
                if let Some((k, x)) = m.iter().next() {
                    // an earlier occurrence of the first key with a different value, spelled with escapes
                    let esc = TextStyle { escape_non_ascii: true, ..*st };
                    write_string_styled(k, &esc, out);
                    out.push(':');
                    out.push_str(if *x == MVal::Null { "0" } else { "null" });
                    out.push(',');
                }
            }
            for (i, (k, x)) in m.iter().enumerate() {
                if i > 0 {
                    if st.ws == 3 || (st.ws == 2 && *slot % 3 == 0) {
                        ws(st, *slot + 4, out);
                    }
                    out.push(',');
                }
                *slot += 1;
                ws(st, *slot, out);
                write_string_styled(k, st, out);
                if st.ws >= 2 {
                    ws(st, *slot + 3, out);
                }
                out.push(':');
                *slot += 1;
                ws(st, *slot, out);
                write_text(x, st, slot, out);
            }
            if !m.is_empty() {
                ws(st, *slot + 2, out);
            }
            out.push('}');
        }
    }
}

// ---------------------------------------------------------------------------
// Conversion to/from the library's public tree type (data mapping only)
// ---------------------------------------------------------------------------

pub fn to_value(v: &MVal) -> jsonb::Value<'static> {
    use jsonb::{Number, Value};
    match v {
        MVal::Null => Value::Null,
        MVal::Bool(b) => Value::Bool(*b),
        MVal::I64(n) => Value::Number(Number::Int64(*n)),
        MVal::U64(n) => Value::Number(Number::UInt64(*n)),
        MVal::F64(b) => Value::Number(Number::Float64(f64::from_bits(*b))),
        MVal::Str(s) => Value::String(std::borrow::Cow::Owned(s.clone())),
        MVal::Arr(xs) => Value::Array(xs.iter().map(to_value).collect()),
        MVal::Obj(m) => Value::Object(m.iter().map(|(k, v)| (k.clone(), to_value(v))).collect()),
    }
}

/// Maps a library tree to the model. Strings are taken as raw bytes so that an
/// ill-formed string (which safe Rust could not even hold) is reported, not trusted.
pub fn from_value(v: &jsonb::Value<'_>) -> Result<MVal, String> {
    use jsonb::{Number, Value};
    Ok(match v {
        Value::Null => MVal::Null,
        Value::Bool(b) => MVal::Bool(*b),
        Value::Number(Number::Int64(n)) => MVal::I64(*n),
        Value::Number(Number::UInt64(n)) => MVal::U64(*n),
        Value::Number(Number::Float64(f)) => MVal::f(*f),
        Value::String(s) => {
            let b = s.as_bytes();
            MVal::Str(std::str::from_utf8(b).map_err(|e| format!("ill-formed string {:02x?}: {e}", b))?.to_string())
        }
        Value::Array(xs) => MVal::Arr(xs.iter().map(from_value).collect::<Result<_, _>>()?),
        Value::Object(m) => {
            let mut o = BTreeMap::new();
            for (k, v) in m.iter() {
                let kb = k.as_bytes();
                let ks = std::str::from_utf8(kb).map_err(|e| format!("ill-formed key {:02x?}: {e}", kb))?;
                o.insert(ks.to_string(), from_value(v)?);
            }
            MVal::Obj(o)
        }
    })
}

pub fn hex(b: &[u8]) -> String {
    let mut s = String::with_capacity(b.len() * 2);
    for x in b {
        s.push_str(&format!("{:02x}", x));
    }
    s
}

pub fn unhex(s: &str) -> Result<Vec<u8>, String> {
    let s = s.trim();
    if s.len() % 2 != 0 {
        return Err("odd hex length".into());
    }
    (0..s.len() / 2)
        .map(|i| u8::from_str_radix(&s[2 * i..2 * i + 2], 16).map_err(|e| e.to_string()))
        .collect()
}

// ---------------------------------------------------------------------------
// Lossless JSON form of MVal for replay files
// ---------------------------------------------------------------------------

pub fn to_replay(v: &MVal) -> serde_json::Value {
    use serde_json::json;
    // JSON readers limit nesting (serde_json: 128 levels) and this form costs about four levels per document
    // level: deep documents are written as the hex of their canonical encoding instead
    if v.depth() > 20 {
        return json!({"hex": hex(&encode(v))});
    }
    to_replay_tree(v)
}

fn to_replay_tree(v: &MVal) -> serde_json::Value {
    use serde_json::json;
    match v {
        MVal::Null => json!(null),
        MVal::Bool(b) => json!(b),
        MVal::I64(n) => json!({"i": n.to_string()}),
        MVal::U64(n) => json!({"u": n.to_string()}),
        MVal::F64(b) => json!({"f": format!("{:016x}", b)}),
        // a long run of one character (the huge-payload documents) is written as its run length
        MVal::Str(s) if s.len() > 4096 && s.chars().all(|c| Some(c) == s.chars().next()) => json!({"run": s.chars().next().unwrap().to_string(), "times": s.chars().count()}),
        MVal::Str(s) => json!(s),
        MVal::Arr(xs) => serde_json::Value::Array(xs.iter().map(to_replay_tree).collect()),
        MVal::Obj(m) => {
            // objects are written as {"o":[[k,v],...]} so that scalar wrappers stay unambiguous
            json!({"o": m.iter().map(|(k, v)| json!([k, to_replay_tree(v)])).collect::<Vec<_>>()})
        }
    }
}

pub fn from_replay(j: &serde_json::Value) -> Result<MVal, String> {
    use serde_json::Value as J;
    Ok(match j {
        J::Null => MVal::Null,
        J::Bool(b) => MVal::Bool(*b),
        J::String(s) => MVal::Str(s.clone()),
        J::Array(xs) => MVal::Arr(xs.iter().map(from_replay).collect::<Result<_, _>>()?),
        J::Object(m) => {
            if let Some(J::String(h)) = m.get("hex") {
                validate(&unhex(h)?)?
            } else if let (Some(J::String(c)), Some(n)) = (m.get("run"), m.get("times").and_then(|n| n.as_u64())) {
                MVal::Str(c.repeat(n as usize))
            } else if let Some(J::String(s)) = m.get("i") {
                MVal::I64(s.parse().map_err(|e| format!("{e}"))?)
            } else if let Some(J::String(s)) = m.get("u") {
                MVal::U64(s.parse().map_err(|e| format!("{e}"))?)
            } else if let Some(J::String(s)) = m.get("f") {
                MVal::F64(u64::from_str_radix(s, 16).map_err(|e| format!("{e}"))?)
            } else if let Some(J::Array(kvs)) = m.get("o") {
                let mut o = BTreeMap::new();
                for kv in kvs {
                    let k = kv.get(0).and_then(|k| k.as_str()).ok_or("bad object pair")?;
                    o.insert(k.to_string(), from_replay(kv.get(1).ok_or("bad object pair")?)?);
                }
                MVal::Obj(o)
            } else {
                return Err("unknown wrapper in replay value".into());
            }
        }
        J::Number(_) => return Err("bare number in replay value".into()),
    })
}

#[cfg(test)]
mod tests {
    use super::*;

    #[test]
    fn readme_example() {
        // [false, 10, {"k":"v"}]
        let mut m = BTreeMap::new();
        m.insert("k".to_string(), MVal::s("v"));
        let v = MVal::Arr(vec![MVal::Bool(false), MVal::U64(10), MVal::Obj(m)]);
        let b = encode(&v);
        assert_eq!(
            hex(&b),
            "80000003 30000000 20000002 5000000e 500a 40000001 10000001 10000001 6b 76".replace(' ', "")
        );
    }
}
