//! C07 — `chain`: seeded operation histories over a small register file of documents,
//! checked step by step against the tree model: every result is canonical by the
//! independent validator, byte-equal to the encoding of the model's result, and
//! survives the library's own decode / re-encode unchanged.

use crate::gen;
use crate::harness::{guard, RunOut, Scenario, Stats, Viol};
use crate::model::{self, ModelOut};
use crate::mval::{self, MVal};
use crate::opgen::{self, OpGenCfg, CHAIN_KINDS};
use crate::ops::{self, LibOut, Op, Step as PStep};
use crate::rng::{fnv_of, Fnv, Rng};
use crate::shrink;
use serde_json::{json, Value as J};

#[derive(Clone, Debug, PartialEq)]
pub struct ChainStep {
    pub op: Op,
    /// result i is stored in register dst[i] (extra results are checked but not stored)
    pub dst: Vec<usize>,
    /// registers handed to this call as JSON text (rendered from the tree) instead of JSONB
    pub text_regs: Vec<usize>,
    /// fault: this register is handed over as JSON text that does not parse (a malformed row). The step has no result and
    /// nothing is required of it; the steps after it are judged as always.
    pub bad_text: Option<(usize, Vec<u8>)>,
    /// selections on a kept `Selector` only: another method of the same object is called first, on the same document
    /// (1 `exists`, 2 `predicate_match`); its answer is not a document and is not judged
    pub warm: u8,
}

/// What the library sees when register `i` is passed as text: the tree the text denotes.
fn model_inputs(regs: &[MVal], text_regs: &[usize]) -> Vec<MVal> {
    regs.iter().enumerate().map(|(i, v)| if text_regs.contains(&i) { v.text_norm() } else { v.clone() }).collect()
}

#[derive(Clone, Debug)]
pub struct Case {
    pub regs: Vec<MVal>,
    /// how each register is rendered when a step hands it over as JSON text
    pub styles: Vec<mval::TextStyle>,
    pub steps: Vec<ChainStep>,
    /// the whole history appends to ONE output buffer (and one offsets vector), the way a column builder does;
    /// each step's result is the slice it appended
    pub shared_buffer: bool,
    /// path selections run on one compiled `Selector` per distinct path, kept for the whole history
    pub reuse_selectors: bool,
}

fn sel_key(op: &Op) -> String {
    match op {
        Op::Select { path, api, .. } => format!("{:?}/{}", path, api.mode()),
        _ => String::new(),
    }
}

pub struct Chain;

/// Splits the output of a path selection at the reported offsets.
fn split(buf: &[u8], offs: &[u64], predicate: bool) -> Result<Vec<Vec<u8>>, String> {
    if offs.is_empty() {
        // a whole-path predicate writes its one boolean without an offset; every other selection reports the end of
        // each value it writes, and a caller splits the buffer there: bytes without an offset are no document at all
        if !buf.is_empty() && !predicate {
            return Err(format!("{} bytes were written but no offset was reported", buf.len()));
        }
        return Ok(if buf.is_empty() { vec![] } else { vec![buf.to_vec()] });
    }
    let mut out = vec![];
    let mut prev = 0usize;
    for o in offs {
        let o = *o as usize;
        if o < prev || o > buf.len() {
            return Err(format!("offsets {:?} do not delimit a buffer of {} bytes", offs, buf.len()));
        }
        out.push(buf[prev..o].to_vec());
        prev = o;
    }
    if prev != buf.len() {
        return Err(format!("offsets {:?} end before the buffer does ({} bytes)", offs, buf.len()));
    }
    Ok(out)
}

/// The four per-document oracles. Returns the violation class suffix and detail.
fn judge_doc(name: &str, doc: &[u8], want: &MVal) -> Result<(), Viol> {
    // 2. canonical by the independent reading of the README
    let got = match mval::validate(doc) {
        Ok(v) => v,
        Err(why) => {
            return Err(Viol {
                class: format!("noncanonical:{name}"),
                detail: format!("result {} is not canonical JSONB: {why}; the tree result is {}", mval::hex(doc), mval::to_json(want)),
            })
        }
    };
    // 3. equal to the document obtained by applying the same operation to the tree
    if &got != want {
        return Err(Viol {
            class: format!("differs_from_tree:{name}"),
            detail: format!("library result {} but applying the operation to the tree gives {}", mval::to_json(&got), mval::to_json(want)),
        });
    }
    // 4. decodes and re-encodes to the identical bytes with the library's own codec
    match guard(|| jsonb::from_slice(doc).map(|v| v.to_vec())) {
        Ok(Ok(b)) if b == doc => Ok(()),
        Ok(Ok(b)) => Err(Viol { class: format!("reencode_differs:{name}"), detail: format!("{} re-encodes to {}", mval::hex(doc), mval::hex(&b)) }),
        Ok(Err(e)) => Err(Viol { class: format!("result_undecodable:{name}"), detail: format!("from_slice({}) = {:?}", mval::hex(doc), e) }),
        Err(p) => Err(Viol { class: format!("panic:from_slice:{}", p.loc), detail: p.msg }),
    }
}

fn kind_of(op: &Op) -> &'static str {
    match op {
        Op::Select { .. } => "select",
        o => o.name(),
    }
}

impl Scenario for Chain {
    type Case = Case;
    fn id(&self) -> &'static str {
        "C07"
    }
    fn name(&self) -> &'static str {
        "chain"
    }
    fn level(&self) -> &'static str {
        "exploration"
    }
    fn tag(&self) -> u64 {
        0xC07
    }
    fn runs(&self, tier: &str) -> u64 {
        if tier == "thorough" {
            3_000_000
        } else {
            200_000
        }
    }

    fn gen(&self, seed: u64, run: u64) -> Case {
        let mut r = Rng::for_run(seed, self.tag(), run);
        let (vals, filters) = opgen::value_profile(&mut r);
        let nregs = r.urange(2, 6);
        let mut regs: Vec<MVal> = (0..nregs).map(|_| gen::gen_doc(&mut r, &vals, 70).norm()).collect();
        // one history in six carries a register that is an array of numbers only, drawn from the boundary pools of the
        // profile (all integer kinds side by side: negative, above i64::MAX, 2^53 +- 1, ...), bare or under a key: the
        // documents on which a filter or a set function compares numbers of different kinds with each other
        if r.chance(1, 6) {
            let n = r.urange(2, 8);
            let nums = MVal::Arr((0..n).map(|_| gen::gen_number(&mut r, &vals)).collect());
            let at = r.idx(regs.len());
            regs[at] = if r.chance(1, 3) { MVal::Obj([(r.pick(gen::KEYS).to_string(), nums)].into_iter().collect()) } else { nums }.norm();
        }
        // one history in 20,000 carries a document with a payload at the 2^24-byte boundary of the entry length field
        let huge = r.chance(1, 20_000);
        if huge {
            regs[0] = gen::gen_huge_payload(&mut r);
        }
        let mut kinds: Vec<&'static str> = CHAIN_KINDS.iter().copied().filter(|_| r.chance(1, 2)).collect();
        if kinds.is_empty() {
            kinds.push(*r.pick(CHAIN_KINDS));
        }
        // path selection is the richest operation: present in most runs
        if r.chance(1, 2) && !kinds.contains(&"select") {
            kinds.push("select");
        }
        let len = if huge { *r.pick(&[1usize, 2, 3, 5]) } else { *r.pick(&[1usize, 2, 3, 5, 8, 12, 20, 40]) };
        let ocfg = OpGenCfg { kinds: &kinds, vals: &vals, filters, fail_pct: *r.pick(&[0u64, 5, 15]) };
        let text_pct = *r.pick(&[0u64, 0, 0, 20, 50]);
        // generation follows the model so that arguments are chosen from the *current* documents
        let mut cur = regs.clone();
        let mut steps = vec![];
        for _ in 0..len {
            let kind = *r.pick(&kinds);
            let mut op = opgen::gen_op(&mut r, kind, &cur, &ocfg);
            // the same path applied to another document: what a compiled selector is for
            if let Op::Select { path, api, v } = &mut op {
                let earlier: Vec<&ChainStep> = steps.iter().filter(|s: &&ChainStep| matches!(&s.op, Op::Select { .. })).collect();
                if !earlier.is_empty() && r.chance(1, 3) {
                    if let Op::Select { path: p0, api: a0, .. } = &earlier[r.idx(earlier.len())].op {
                        let target = r.idx(cur.len());
                        if !(p0.has_filter() || p0.predicate.is_some()) || cur[target].node_count() <= 2000 {
                            *path = p0.clone();
                            *api = *a0;
                            *v = target;
                        }
                    }
                }
            }
            let reads = op.reads();
            let mut text_regs: Vec<usize> = vec![];
            for (pos, reg) in reads.iter().enumerate() {
                if op.arg_accepts_text(pos) && !cur[*reg].has_nonfinite() && r.chance(text_pct, 100) && !text_regs.contains(reg) {
                    text_regs.push(*reg);
                }
            }
            if op.second_text_needs_first_text() && reads.len() == 2 && !text_regs.contains(&reads[0]) {
                text_regs.clear();
            }
            // a malformed text row now and then
            if !text_regs.is_empty() && r.chance(ocfg.fail_pct, 200) {
                let cands: Vec<usize> = reads.iter().enumerate().filter(|(pos, reg)| op.arg_accepts_text(*pos) && (text_regs.contains(reg) || *pos == 1) && (reads.len() < 2 || reads[0] != reads[1])).map(|(_, reg)| *reg).collect();
                if !cands.is_empty() {
                    let bad = Some((cands[r.idx(cands.len())], r.pick(crate::scen_batch::BAD_TEXTS).to_vec()));
                    steps.push(ChainStep { op, dst: vec![], text_regs, bad_text: bad, warm: 0 });
                    continue;
                }
            }
            // ... an item that is not JSONB at all handed to a builder after at least one good item (the call is refused
            // part-way through its items) ...
            if let Op::BuildArray { items } = &op {
                if items.len() >= 2 && items[0] != items[items.len() - 1] && r.chance(ocfg.fail_pct, 100) {
                    let bad = Some((items[items.len() - 1], r.pick(crate::scen_batch::BAD_ITEMS).to_vec()));
                    steps.push(ChainStep { op, dst: vec![], text_regs: vec![], bad_text: bad, warm: 0 });
                    continue;
                }
            }
            if let Op::BuildObject { items } = &op {
                if items.len() >= 2 && items[0].1 != items[items.len() - 1].1 && r.chance(ocfg.fail_pct, 100) {
                    let bad = Some((items[items.len() - 1].1, r.pick(crate::scen_batch::BAD_ITEMS).to_vec()));
                    steps.push(ChainStep { op, dst: vec![], text_regs: vec![], bad_text: bad, warm: 0 });
                    continue;
                }
            }
            // ... and a damaged JSONB row handed to a path selection (its stored bytes cut short): the selection fails
            // part-way through the document, on a selector that is kept for the rows after it
            if let Op::Select { v, api, .. } = &op {
                if !api.accepts_text() && r.chance(ocfg.fail_pct, 150) {
                    let b = mval::encode(&cur[*v]);
                    if b.len() > 9 {
                        let cut = r.urange(1, 9);
                        let bad = Some((*v, b[..b.len() - cut].to_vec()));
                        steps.push(ChainStep { op, dst: vec![], text_regs: vec![], bad_text: bad, warm: 0 });
                        continue;
                    }
                }
            }
            let results: Vec<MVal> = match model::apply(&op, &model_inputs(&cur, &text_regs)) {
                ModelOut::Wrote(Ok(v)) => v,
                ModelOut::Returned(Some(v)) => v,
                _ => vec![],
            };
            let ndst = results.len().min(nregs).max(1);
            let mut dst: Vec<usize> = (0..nregs).collect();
            r.shuffle(&mut dst);
            dst.truncate(ndst);
            for (i, res) in results.iter().enumerate() {
                if i < dst.len() && res.node_count() <= 400 {
                    cur[dst[i]] = res.clone();
                }
            }
            let warm = if matches!(op, Op::Select { .. }) && r.chance(1, 3) { 1 + r.below(2) as u8 } else { 0 };
            steps.push(ChainStep { op, dst, text_regs, bad_text: None, warm });
        }
        let styles = (0..nregs).map(|_| if r.chance(1, 2) { mval::TextStyle::default() } else { gen::gen_text_style(&mut r) }).collect();
        let shared_buffer = r.chance(1, 4);
        Case { regs, styles, steps, shared_buffer, reuse_selectors: r.chance(1, 2) }
    }

    fn exec(&self, case: &Case, stats: &mut Stats) -> RunOut<Case> {
        let mut digest = Fnv::new();
        let mut mregs: Vec<MVal> = case.regs.clone();
        let mut bregs: Vec<Vec<u8>> = mregs.iter().map(mval::encode).collect();
        let mut violation: Option<Viol> = None;
        let mut ok_steps = 0u64;
        let mut prev_kind: Option<&'static str> = None;
        let mut shared_buf: Vec<u8> = Vec::new();
        let mut shared_offs: Vec<u64> = Vec::new();
        if case.shared_buffer {
            stats.inc("probe/shared_buffer_history");
        }
        let mut selectors: std::collections::BTreeMap<String, jsonb::jsonpath::Selector<'static>> = Default::default();
        if case.reuse_selectors {
            for st in &case.steps {
                if let Some(sel) = ops::make_selector(&st.op) {
                    selectors.entry(sel_key(&st.op)).or_insert(sel);
                }
            }
        }
        for (si, st) in case.steps.iter().enumerate() {
            let op = &st.op;
            let name = op.name();
            let kind = kind_of(op);
            stats.steps += 1;
            stats.inc2("ops", name);
            if let Some(p) = prev_kind {
                stats.inc2("bigram", &format!("{p}>{kind}"));
            }
            prev_kind = Some(kind);
            if let Op::Select { path, .. } = op {
                if path.predicate.is_some() {
                    stats.inc("probe/predicate_path");
                } else if path.has_filter() {
                    stats.inc("probe/filter_path");
                }
                if path.steps.iter().any(|s| matches!(s, PStep::Indices(_))) {
                    stats.inc("probe/index_path");
                }
            }
            // a register passed as text must be renderable; a shrunk case may have broken that: fall back to JSONB
            let text_regs: Vec<usize> = st.text_regs.iter().copied().filter(|i| *i < mregs.len() && !mregs[*i].has_nonfinite()).collect();
            if let Some((reg, bytes)) = &st.bad_text {
                // fault: a malformed text row. Whatever the call does with it is not judged; it must not disturb later steps
                if *reg < bregs.len() {
                    stats.inc("probe/unparsable_text_step");
                    let mut args: Vec<Vec<u8>> = bregs.iter().enumerate().map(|(i, b)| if text_regs.contains(&i) { mval::to_text(&mregs[i], case.styles.get(i).unwrap_or(&mval::TextStyle::default())).into_bytes() } else { b.clone() }).collect();
                    args[*reg] = bytes.clone();
                    let mut buf = Vec::new();
                    let mut offs = Vec::new();
                    let reused = selectors.get(&sel_key(op)).filter(|_| matches!(op, Op::Select { api, .. } if !api.accepts_text()));
                    if reused.is_some() {
                        stats.inc("probe/damaged_row_on_kept_selector");
                    }
                    let _ = guard(|| ops::call_with(op, &args, &mregs, &mut buf, &mut offs, reused));
                }
                continue;
            }
            let want = model::apply(op, &model_inputs(&mregs, &text_regs));
            let reused = selectors.get(&sel_key(op)).filter(|_| matches!(op, Op::Select { api, .. } if !api.accepts_text()));
            if reused.is_some() {
                stats.inc("probe/compiled_selector_reused");
            }
            let warm = st.warm;
            let args: Vec<Vec<u8>> = if text_regs.is_empty() {
                bregs.clone()
            } else {
                stats.inc("probe/text_argument_step");
                bregs.iter().enumerate().map(|(i, b)| if text_regs.contains(&i) { mval::to_text(&mregs[i], case.styles.get(i).unwrap_or(&mval::TextStyle::default())).into_bytes() } else { b.clone() }).collect()
            };
            let mut buf = Vec::new();
            let mut offs = Vec::new();
            let got = if case.shared_buffer {
                let (b0, o0) = (shared_buf.len(), shared_offs.len());
                let g = guard(|| {
                    ops::warm_selector(op, &args, reused, warm);
                    ops::call_with(op, &args, &mregs, &mut shared_buf, &mut shared_offs, reused)
                });
                // this step's result is what it appended; offsets are positions in the shared buffer
                buf = shared_buf.get(b0..).map(|s| s.to_vec()).unwrap_or_default();
                offs = shared_offs.get(o0..).map(|s| s.iter().map(|o| o.wrapping_sub(b0 as u64)).collect()).unwrap_or_default();
                g
            } else {
                guard(|| {
                    ops::warm_selector(op, &args, reused, warm);
                    ops::call_with(op, &args, &mregs, &mut buf, &mut offs, reused)
                })
            };
            let got = match got {
                Ok(g) => g,
                Err(p) => {
                    violation = Some(Viol { class: format!("panic:{name}:{}", p.loc), detail: format!("step {si} ({name}) panicked at {}: {}", p.loc, p.msg) });
                    break;
                }
            };
            digest.str(&format!("{:?}", got));
            digest.bytes(&buf);
            // 1. outcome kind
            let (docs, wants): (Vec<Vec<u8>>, Vec<MVal>) = match (&got, &want) {
                (LibOut::Wrote(Ok(())), ModelOut::Wrote(Ok(w))) => {
                    let docs = if matches!(op, Op::Select { .. }) {
                        match split(&buf, &offs, matches!(op, Op::Select { path, .. } if path.predicate.is_some())) {
                            Ok(d) => d,
                            Err(why) => {
                                violation = Some(Viol { class: format!("bad_offsets:{name}"), detail: format!("step {si} ({name}): {why}") });
                                break;
                            }
                        }
                    } else {
                        vec![buf.clone()]
                    };
                    (docs, w.clone())
                }
                (LibOut::Wrote(Err(e)), ModelOut::Wrote(Err(w))) => {
                    stats.inc("probe/failing_operation");
                    stats.inc2("errors", &format!("{name}:{e}"));
                    // which variant is returned is not part of C07 (a failing step has no result to be canonical);
                    // it is recorded, not judged
                    if e != w {
                        stats.inc("probe/error_variant_differs_from_documented_recorded_not_judged");
                    }
                    if !buf.is_empty() {
                        violation = Some(Viol { class: format!("error_after_write:{name}"), detail: format!("step {si} ({name}) returned {e} after writing {} bytes", buf.len()) });
                        break;
                    }
                    continue;
                }
                (LibOut::Returned(None), ModelOut::Returned(None)) => {
                    stats.inc("probe/failing_operation");
                    continue;
                }
                (LibOut::Returned(Some(d)), ModelOut::Returned(Some(w))) => (d.clone(), w.clone()),
                (g, w) => {
                    let gs = match g {
                        LibOut::Wrote(Ok(())) => "Ok".to_string(),
                        LibOut::Wrote(Err(e)) => format!("Err({e})"),
                        LibOut::Returned(None) => "None".to_string(),
                        LibOut::Returned(Some(_)) => "Some".to_string(),
                    };
                    let ws = match w {
                        ModelOut::Wrote(Ok(_)) => "Ok".to_string(),
                        ModelOut::Wrote(Err(e)) => format!("Err({e})"),
                        ModelOut::Returned(None) => "None".to_string(),
                        ModelOut::Returned(Some(v)) => format!("Some({})", v.iter().map(mval::to_json).collect::<Vec<_>>().join(", ")),
                    };
                    violation = Some(Viol { class: format!("outcome_kind:{name}"), detail: format!("step {si} ({name}) returned {gs}; the tree model gives {ws}") });
                    break;
                }
            };
            if docs.len() != wants.len() {
                violation = Some(Viol {
                    class: format!("result_count:{name}"),
                    detail: format!(
                        "step {si} ({name}) produced {} document(s) [{}]; the tree model gives {} [{}]",
                        docs.len(),
                        docs.iter().map(|d| mval::hex(d)).collect::<Vec<_>>().join(" | "),
                        wants.len(),
                        wants.iter().map(mval::to_json).collect::<Vec<_>>().join(", ")
                    ),
                });
                break;
            }
            let mut bad = None;
            for (d, w) in docs.iter().zip(wants.iter()) {
                if let Err(mut v) = judge_doc(name, d, w) {
                    v.detail = format!("step {si}: {}", v.detail);
                    bad = Some(v);
                    break;
                }
                if stats.states.len() < 2_000_000 {
                    stats.states.insert(fnv_of(d));
                }
                stats.maxi("result_bytes", d.len() as u64);
                stats.maxi("result_depth", w.depth() as u64);
            }
            if let Some(v) = bad {
                violation = Some(v);
                break;
            }
            ok_steps += 1;
            if docs.is_empty() {
                stats.inc("probe/empty_selection");
            }
            if docs.len() > 1 {
                stats.inc("probe/multi_result_step");
            }
            // thread the library's bytes into the next steps
            for (i, (d, w)) in docs.into_iter().zip(wants.into_iter()).enumerate() {
                if i < st.dst.len() && w.node_count() <= 400 {
                    mregs[st.dst[i]] = w;
                    bregs[st.dst[i]] = d;
                }
            }
        }
        if ok_steps >= 2 {
            let mut h = Fnv::new();
            for b in &bregs {
                h.bytes(b);
                h.u64(b.len() as u64);
            }
            if stats.distinct.len() < 4_000_000 {
                stats.distinct.insert(h.finish());
            }
            stats.inc("probe/history_with_2plus_successful_steps");
        }
        stats.maxi("history_length", case.steps.len() as u64);
        stats.sample(6, || {
            json!({"registers": case.regs.iter().map(mval::to_json).collect::<Vec<_>>(),
                   "history": case.steps.iter().take(8).map(|s| json!({"call": s.op.to_json(), "dst": s.dst, "text_regs": s.text_regs})).collect::<Vec<_>>(),
                   "history_length": case.steps.len()})
        });
        let violations = match violation {
            Some(v) => {
                digest.str(&v.class);
                vec![(v, None)]
            }
            None => vec![],
        };
        RunOut { digest: digest.finish(), violations }
    }

    fn shrink(&self, case: &Case) -> Vec<Case> {
        let mut out = vec![];
        let n = case.steps.len();
        if case.shared_buffer {
            let mut c = case.clone();
            c.shared_buffer = false;
            out.push(c);
        }
        if case.reuse_selectors {
            let mut c = case.clone();
            c.reuse_selectors = false;
            out.push(c);
        }
        if n > 1 {
            // the violating step is the last executed one: try it alone, then drop prefixes / single steps
            for keep in [1usize, 2, 3] {
                if n > keep {
                    let mut c = case.clone();
                    c.steps = case.steps[n - keep..].to_vec();
                    out.push(c);
                }
            }
            let mut c = case.clone();
            c.steps = case.steps[..n / 2].to_vec();
            out.push(c);
            for i in 0..n {
                let mut c = case.clone();
                c.steps.remove(i);
                out.push(c);
            }
        }
        for i in 0..n {
            if !case.steps[i].text_regs.is_empty() {
                let mut c = case.clone();
                c.steps[i].text_regs.clear();
                out.push(c);
            }
        }
        // simpler arguments
        for i in 0..n {
            match &case.steps[i].op {
                Op::Select { v, path, api } => {
                    for k in 0..path.steps.len() {
                        let mut p = path.clone();
                        p.steps.remove(k);
                        let mut c = case.clone();
                        c.steps[i].op = Op::Select { v: *v, path: p, api: *api };
                        out.push(c);
                    }
                }
                Op::DeleteByKeypath { v, path } if !path.is_empty() => {
                    let mut c = case.clone();
                    c.steps[i].op = Op::DeleteByKeypath { v: *v, path: path[..path.len() - 1].to_vec() };
                    out.push(c);
                }
                Op::GetByKeypath { v, path } if !path.is_empty() => {
                    let mut c = case.clone();
                    c.steps[i].op = Op::GetByKeypath { v: *v, path: path[..path.len() - 1].to_vec() };
                    out.push(c);
                }
                _ => {}
            }
        }
        // simpler starting documents
        for i in 0..case.regs.len() {
            for t in shrink::shrink_tree(&case.regs[i]) {
                let mut c = case.clone();
                c.regs[i] = t.norm();
                out.push(c);
            }
        }
        out
    }

    fn to_json(&self, case: &Case) -> J {
        json!({
            "registers": case.regs.iter().map(mval::to_replay).collect::<Vec<_>>(),
            "registers_json": case.regs.iter().map(mval::to_json).collect::<Vec<_>>(),
            "registers_hex": case.regs.iter().map(|r| mval::hex(&mval::encode(r))).collect::<Vec<_>>(),
            "history": case.steps.iter().map(|s| json!({"call": s.op.to_json(), "dst": s.dst, "text_regs": s.text_regs, "warm": s.warm,
                "bad_text": s.bad_text.as_ref().map(|(p, b)| json!({"reg": p, "hex": mval::hex(b)}))})).collect::<Vec<_>>(),
            "shared_buffer": case.shared_buffer,
            "reuse_selectors": case.reuse_selectors,
            "styles": case.styles.iter().map(mval::style_to_json).collect::<Vec<_>>(),
        })
    }

    fn from_json(&self, j: &J) -> Result<Case, String> {
        let regs = j["registers"].as_array().ok_or("registers")?.iter().map(mval::from_replay).collect::<Result<Vec<_>, _>>()?;
        let mut steps = vec![];
        for s in j["history"].as_array().ok_or("history")? {
            steps.push(ChainStep {
                op: Op::from_json(&s["call"])?,
                dst: s["dst"].as_array().map(|a| a.iter().filter_map(|x| x.as_u64().map(|v| v as usize)).collect()).unwrap_or_default(),
                text_regs: s["text_regs"].as_array().map(|a| a.iter().filter_map(|x| x.as_u64().map(|v| v as usize)).collect()).unwrap_or_default(),
                warm: s["warm"].as_u64().unwrap_or(0) as u8,
                bad_text: match s.get("bad_text") {
                    Some(b) if b.is_object() => Some((b["reg"].as_u64().unwrap_or(0) as usize, mval::unhex(b["hex"].as_str().unwrap_or(""))?)),
                    _ => None,
                },
            });
        }
        let styles = j["styles"].as_array().map(|a| a.iter().map(mval::style_from_json).collect()).unwrap_or_default();
        Ok(Case { regs, styles, steps, shared_buffer: j["shared_buffer"].as_bool().unwrap_or(false), reuse_selectors: j["reuse_selectors"].as_bool().unwrap_or(false) })
    }

    fn size(&self, case: &Case) -> J {
        json!({"steps": case.steps.len(), "register_nodes": case.regs.iter().map(|r| r.node_count()).sum::<usize>()})
    }

    fn rule(&self) -> String {
        "A case is a history: 2-6 registers holding canonical documents produced by the independent encoder, then 1-40 operations drawn from a per-run random subset \
         of the editing, set, extraction, building and path-selection functions, with arguments derived from the documents currently in the registers (existing / \
         case-variant / missing keys, indices from -len-1..len+1, key paths and JSONPaths built by walking the document, optionally overshooting); each result is \
         written back into registers and feeds later steps; in some runs a seeded fraction of document arguments is handed over as JSON text rendered from the tree \
         (the functions' text branch) instead of JSONB, and one history in four appends every result to one shared output buffer and offsets vector \
         (each result is then the slice its step appended). After every step the four oracles run. distinct_nontrivial = histories with at least two successful steps \
         whose final register file (64-bit hash of all register bytes) had not been reached by another history of this run; states = distinct result documents."
            .into()
    }

    fn assumptions(&self) -> Vec<String> {
        vec![
            "tree model sim/src/model.rs (DESIGN.md Appendix A) and independent encoder/strict validator sim/src/mval.rs, hand-written from README.md, the property statements and the functions' doc comments".into(),
            "build_object is called with strictly increasing keys (its contract for a canonical result); filters use == != < <= > >= / exists / && / || over paths and literals and are generated only when the run's number profile makes int/float comparison exact; no arithmetic path expressions".into(),
            "results larger than 400 tree nodes are checked but not written back into registers (keeps histories bounded)".into(),
            "sampling: a clean batch is evidence, not proof".into(),
        ]
    }

    fn coverage_extra(&self, stats: &Stats) -> serde_json::Map<String, J> {
        let mut m = serde_json::Map::new();
        m.insert("operations_fired".into(), stats.group("ops"));
        let bigrams = stats.group("bigram");
        let nb = bigrams.as_object().map(|o| o.len()).unwrap_or(0);
        m.insert("operation_kind_bigrams_covered".into(), json!(nb));
        m.insert("operation_kind_bigrams_possible".into(), json!(CHAIN_KINDS.len() * CHAIN_KINDS.len()));
        m.insert("errors_returned".into(), stats.group("errors"));
        m.insert("fault_kinds".into(), json!({"failing_operation (None / documented Err, registers unchanged)": stats.get("probe/failing_operation"),
            "unparsable_text_argument (malformed row; later steps judged)": stats.get("probe/unparsable_text_step"),
            "compiled_selector_reused_across_steps": stats.get("probe/compiled_selector_reused")}));
        m.insert(
            "components".into(),
            json!({"real": ["every editing/extraction/building/path-selection pub fn of jsonb::functions", "jsonpath::Selector", "from_slice + Value::to_vec (oracle 4)"],
                   "simulated": ["the caller threading documents through a register file"], "stub": []}),
        );
        m
    }

    fn probes(&self) -> Vec<&'static str> {
        vec![
            "probe/failing_operation",
            "probe/history_with_2plus_successful_steps",
            "probe/filter_path",
            "probe/predicate_path",
            "probe/index_path",
            "probe/multi_result_step",
            "probe/empty_selection",
            "probe/text_argument_step",
            "probe/shared_buffer_history",
            "probe/unparsable_text_step",
            "probe/damaged_row_on_kept_selector",
            "probe/compiled_selector_reused",
        ]
    }
}
