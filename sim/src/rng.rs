//! The only source of randomness in the simulator.
//!
//! `VERIF_SEED` -> SplitMix64 -> one xoshiro256** stream per (scenario tag, run index).
//! Nothing else (no clock, no address, no hash-map order) feeds a decision.

#[derive(Clone, Debug)]
pub struct Rng {
    s: [u64; 4],
}

fn splitmix(x: &mut u64) -> u64 {
    *x = x.wrapping_add(0x9E37_79B9_7F4A_7C15);
    let mut z = *x;
    z = (z ^ (z >> 30)).wrapping_mul(0xBF58_476D_1CE4_E5B9);
    z = (z ^ (z >> 27)).wrapping_mul(0x94D0_49BB_1331_11EB);
    z ^ (z >> 31)
}

impl Rng {
    pub fn from_seed(seed: u64) -> Rng {
        let mut x = seed;
        let s = [
            splitmix(&mut x),
            splitmix(&mut x),
            splitmix(&mut x),
            splitmix(&mut x),
        ];
        Rng { s }
    }

    /// Stream for run `run` of scenario `tag` under global seed `seed`.
    pub fn for_run(seed: u64, tag: u64, run: u64) -> Rng {
        let mut x = seed ^ tag.wrapping_mul(0xD6E8_FEB8_6659_FD93);
        let a = splitmix(&mut x);
        let mut y = a ^ run.wrapping_mul(0x9E37_79B9_7F4A_7C15);
        let b = splitmix(&mut y);
        Rng::from_seed(b ^ run.rotate_left(17))
    }

    pub fn next_u64(&mut self) -> u64 {
        let result = self.s[1].wrapping_mul(5).rotate_left(7).wrapping_mul(9);
        let t = self.s[1] << 17;
        self.s[2] ^= self.s[0];
        self.s[3] ^= self.s[1];
        self.s[1] ^= self.s[2];
        self.s[0] ^= self.s[3];
        self.s[2] ^= t;
        self.s[3] = self.s[3].rotate_left(45);
        result
    }

    /// Uniform in 0..n (n > 0). Slight modulo bias is irrelevant here.
    pub fn below(&mut self, n: u64) -> u64 {
        debug_assert!(n > 0);
        self.next_u64() % n
    }

    pub fn idx(&mut self, n: usize) -> usize {
        self.below(n as u64) as usize
    }

    /// Uniform in lo..=hi.
    pub fn range(&mut self, lo: i64, hi: i64) -> i64 {
        debug_assert!(lo <= hi);
        let span = (hi as i128 - lo as i128 + 1) as u128;
        (lo as i128 + (self.next_u64() as u128 % span) as i128) as i64
    }

    pub fn urange(&mut self, lo: usize, hi: usize) -> usize {
        self.range(lo as i64, hi as i64) as usize
    }

    /// True with probability num/den.
    pub fn chance(&mut self, num: u64, den: u64) -> bool {
        self.below(den) < num
    }

    pub fn pick<'a, T>(&mut self, xs: &'a [T]) -> &'a T {
        &xs[self.idx(xs.len())]
    }

    pub fn shuffle<T>(&mut self, xs: &mut [T]) {
        for i in (1..xs.len()).rev() {
            let j = self.idx(i + 1);
            xs.swap(i, j);
        }
    }
}

/// 64-bit FNV-1a, used for event digests and distinct-case counting.
#[derive(Clone, Copy)]
pub struct Fnv(pub u64);

impl Default for Fnv {
    fn default() -> Self {
        Fnv(0xcbf2_9ce4_8422_2325)
    }
}

impl Fnv {
    pub fn new() -> Fnv {
        Fnv::default()
    }
    pub fn bytes(&mut self, b: &[u8]) {
        for x in b {
            self.0 ^= *x as u64;
            self.0 = self.0.wrapping_mul(0x0000_0100_0000_01B3);
        }
    }
    pub fn u64(&mut self, v: u64) {
        self.bytes(&v.to_le_bytes());
    }
    pub fn str(&mut self, s: &str) {
        self.bytes(s.as_bytes());
        self.bytes(&[0xff]);
    }
    pub fn finish(&self) -> u64 {
        self.0
    }
}

pub fn fnv_of(b: &[u8]) -> u64 {
    let mut f = Fnv::new();
    f.bytes(b);
    f.finish()
}
