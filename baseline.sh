#!/bin/bash
# Runs the repository's pinned test suite offline (no verification cfg/feature is set; /verif adds no hooks)
# and checks that every test listed as stable in /root/.vp/BASELINE.json passes.
# With no BASELINE.json available, falls back to "at least 71 tests passed".
set -u
cd /repo || exit 2
OUT=$(CARGO_NET_OFFLINE=true cargo test --workspace --no-fail-fast --offline 2>&1)
python3 - "$OUT" <<'PY'
import json, re, sys, os
out = sys.argv[1]
ok = set()
for m in re.finditer(r'^test (\S+) \.\.\. ok$', out, re.M):
    ok.add(m.group(1))
want = None
try:
    want = json.load(open('/root/.vp/BASELINE.json'))['stable_pass']
except Exception:
    pass
if want is None:
    n = len(ok)
    print(f"baseline: {n} tests passed (no BASELINE.json; need >= 71)")
    sys.exit(0 if n >= 71 else 1)
missing = []
for t in want:
    # names look like jsonb::it::decode::test_x (integration) or jsonb::builder::tests::test_x (unit)
    short = t.split('::', 1)[1]
    if short.startswith('it::'):
        short = short[4:]
    if short not in ok:
        missing.append(t)
print(f"baseline: {len(want) - len(missing)}/{len(want)} stable tests pass")
for t in missing:
    print("  NOT PASSING:", t)
sys.exit(1 if missing else 0)
PY
