mod alloc;
mod placement;
mod gen;
mod harness;
mod mval;
mod rng;
mod model;
mod opgen;
mod ops;
mod scen_batch;
mod scen_chain;
mod scen_corrupt;
mod scen_limits;
mod shrink;

use harness::Opts;

#[global_allocator]
static GLOBAL: alloc::Accounting = alloc::Accounting;

fn usage() -> i32 {
    eprintln!(
        "usage: sim run <corrupt|chain|batch|limits> [--tier quick|thorough] [--seed N] [--runs N] [--threads N]\n\
         \x20      sim replay <file>\n\
         \x20      sim inner <scenario> ...   (internal)\n\
         exit: 0 held, 1 violation, 2 harness error"
    );
    2
}

fn inner(scen: &str, o: &Opts) -> i32 {
    match scen {
        "corrupt" => harness::run_inner(scen_corrupt::Corrupt, o),
        "batch" => harness::run_inner(scen_batch::Batch, o),
        "chain" => harness::run_inner(scen_chain::Chain, o),
        "limits" => harness::run_inner(scen_limits::Limits::new(), o),
        _ => usage(),
    }
}

fn outer(scen: &str, o: &Opts, raw: &[String]) -> i32 {
    match scen {
        "corrupt" => harness::run_outer(scen_corrupt::Corrupt, scen, o, raw),
        "batch" => harness::run_outer(scen_batch::Batch, scen, o, raw),
        "chain" => harness::run_outer(scen_chain::Chain, scen, o, raw),
        "limits" => harness::run_outer(scen_limits::Limits::new(), scen, o, raw),
        _ => usage(),
    }
}

/// `sim case <scenario> <seed> <run>`: prints the explicit case a run index denotes, without executing it.
fn print_case(scen: &str, seed: u64, run: u64) -> i32 {
    use harness::Scenario;
    let j = match scen {
        "corrupt" => scen_corrupt::Corrupt.to_json(&scen_corrupt::Corrupt.gen(seed, run)),
        "batch" => scen_batch::Batch.to_json(&scen_batch::Batch.gen(seed, run)),
        "chain" => scen_chain::Chain.to_json(&scen_chain::Chain.gen(seed, run)),
        "limits" => {
            let l = scen_limits::Limits::new();
            l.to_json(&l.gen(seed, run))
        }
        _ => return usage(),
    };
    println!("{}", serde_json::to_string(&j).unwrap());
    0
}

fn replay_file(path: &str, inner: bool, timeout_s: u64) -> i32 {
    let txt = match std::fs::read_to_string(path) {
        Ok(t) => t,
        Err(e) => {
            eprintln!("HARNESS-ERROR: {path}: {e}");
            return 2;
        }
    };
    let j: serde_json::Value = match serde_json::from_str(&txt) {
        Ok(j) => j,
        Err(e) => {
            eprintln!("HARNESS-ERROR: {path}: {e}");
            return 2;
        }
    };
    let class = j["class"].as_str().unwrap_or("").to_string();
    if !inner && (class == "hang" || class == "process_death") {
        // these two can only be observed from outside the process that executes the case
        return match harness::external_classes(path, timeout_s) {
            Ok(classes) => {
                let id = j["property"].as_str().unwrap_or("?");
                for c in &classes {
                    println!("REPLAY property={id} class={c}");
                }
                if classes.iter().any(|c| *c == class) {
                    println!("REPLAY-REPRODUCED property={id} class={class}");
                    1
                } else if classes.is_empty() {
                    println!("REPLAY property={id} result=no-violation expected-class={class}");
                    0
                } else {
                    println!("REPLAY-DIFFERENT property={id} expected-class={class}");
                    1
                }
            }
            Err(e) => {
                eprintln!("HARNESS-ERROR: {e}");
                2
            }
        };
    }
    match j["scenario"].as_str().unwrap_or("") {
        "corrupt" => harness::replay(scen_corrupt::Corrupt, &j, timeout_s),
        "batch" => harness::replay(scen_batch::Batch, &j, timeout_s),
        "chain" => harness::replay(scen_chain::Chain, &j, timeout_s),
        "limits" => harness::replay(scen_limits::Limits::new(), &j, timeout_s),
        s => {
            eprintln!("HARNESS-ERROR: unknown scenario {s:?} in {path}");
            2
        }
    }
}

fn main() {
    harness::install_panic_hook();
    let args: Vec<String> = std::env::args().skip(1).collect();
    let code = match args.first().map(|s| s.as_str()) {
        Some("inner") if args.len() >= 2 => match Opts::from_args(&args[2..]) {
            Ok(o) => inner(&args[1], &o),
            Err(e) => {
                eprintln!("HARNESS-ERROR: {e}");
                2
            }
        },
        Some("run") if args.len() >= 2 => match Opts::from_args(&args[2..]) {
            Ok(o) => outer(&args[1], &o, &args[2..]),
            Err(e) => {
                eprintln!("HARNESS-ERROR: {e}");
                2
            }
        },
        Some("replay") if args.len() == 2 => replay_file(&args[1], false, 60),
        Some("replay-inner") if args.len() == 4 && args[2] == "--timeout" => replay_file(&args[1], true, args[3].parse().unwrap_or(60)),
        Some("limits-child") if args.len() == 2 => scen_limits::child_main(&args[1]),
        Some("case") if args.len() == 4 => print_case(&args[1], args[2].parse().unwrap_or(1), args[3].parse().unwrap_or(0)),
        Some("limits-floors") => scen_limits::floors_main(),
        Some("limits-baseline") => scen_limits::baseline_main(),
        _ => usage(),
    };
    std::process::exit(code);
}
