#!/usr/bin/env python3
"""Sensitivity proof. For every seeded property-breaking change under /verif/seeded/<id>/ (patch.diff + meta.json),
build the simulator against a scratch copy of /repo with the patch applied and run the quick check of the property
it breaks (or, with --all, all four checks). A change counts as caught when the check exits 1 with a
`VIOLATION property=<id> replay=<path>` line AND replaying that file reproduces the same violation class.

Scratch copies live under a fresh directory in /tmp and are deleted (with their build output) at the end.
Nothing in /repo or /verif is modified except /verif/seeded/RESULTS.json (the catch matrix), rewritten on each full run.

usage: selftest.py [--all] [--only <id-substring>] [--keep] [--tier quick|thorough] [--sim-rev <git rev of /verif>]
exit 0: every seeded change was caught by the check of the property it breaks; 1: some change was missed; 2: harness error
"""
import json, os, re, shutil, subprocess, sys, tempfile, time

VERIF = "/verif"
REPO = "/repo"
SCEN = {"C07": "chain", "C10": "corrupt", "C17": "batch", "C20": "limits"}

def sh(cmd, cwd=None, env=None, timeout=3600):
    p = subprocess.run(cmd, cwd=cwd, env=env, stdout=subprocess.PIPE, stderr=subprocess.STDOUT, text=True, timeout=timeout)
    return p.returncode, p.stdout

def main():
    args = sys.argv[1:]
    run_all = "--all" in args
    keep = "--keep" in args
    only = args[args.index("--only") + 1] if "--only" in args else None
    tier = args[args.index("--tier") + 1] if "--tier" in args else "quick"
    seeded = sorted(d for d in os.listdir(f"{VERIF}/seeded") if os.path.isfile(f"{VERIF}/seeded/{d}/patch.diff"))
    if only:
        seeded = [d for d in seeded if only in d]
    if not seeded:
        print("HARNESS-ERROR: no seeded changes found")
        return 2
    tmp = tempfile.mkdtemp(prefix="verif-selftest-")
    env = dict(os.environ, CARGO_NET_OFFLINE="true", CARGO_TARGET_DIR=f"{tmp}/target")
    results = []
    missed = 0
    try:
        # one scratch copy of the simulator crate, pointed at a scratch copy of the repository
        if "--sim-rev" in args:
            # the simulator as committed at <rev> (to measure a change against the machinery that existed before it)
            rev = args[args.index("--sim-rev") + 1]
            rc, out = sh(["bash", "-c", f"git -C {VERIF} archive {rev} sim known_findings.json limits_baseline.json | tar -x -C {tmp}"])
            if rc != 0:
                print(out); print("HARNESS-ERROR: cannot export sim at " + rev); return 2
        else:
            shutil.copytree(f"{VERIF}/sim", f"{tmp}/sim", ignore=shutil.ignore_patterns("target"))
        toml = open(f"{tmp}/sim/Cargo.toml").read().replace('path = "/repo"', f'path = "{tmp}/repo"')
        open(f"{tmp}/sim/Cargo.toml", "w").write(toml)
        for sid in seeded:
            meta = json.load(open(f"{VERIF}/seeded/{sid}/meta.json"))
            prop = meta["property"]
            t0 = time.time()
            shutil.rmtree(f"{tmp}/repo", ignore_errors=True)
            rc, out = sh(["git", "-C", REPO, "worktree", "add", "--detach", "-f", f"{tmp}/repo", "HEAD"])
            if rc != 0:
                print(out); print("HARNESS-ERROR: cannot create scratch worktree"); return 2
            try:
                rc, out = sh(["git", "-C", f"{tmp}/repo", "apply", f"{VERIF}/seeded/{sid}/patch.diff"])
                if rc != 0:
                    print(out); print(f"HARNESS-ERROR: {sid}/patch.diff does not apply to /repo HEAD"); return 2
                # the other two profiles are only needed by the limits scenario
                profs = ("checked", "shipped", "dev", "aborting") if (run_all or prop == "C20") else ("checked",)
                defined = open(f"{tmp}/sim/Cargo.toml").read()
                for prof in profs:
                    if prof not in ("dev",) and f"[profile.{prof}]" not in defined:
                        continue  # --sim-rev: a simulator from before that build existed
                    rc, out = sh(["cargo", "build", "--offline", "--profile", prof], cwd=f"{tmp}/sim", env=env)
                    if rc != 0:
                        print(out[-3000:]); print(f"HARNESS-ERROR: build failed with {sid} applied"); return 2
                row = {"seeded": sid, "breaks": prop, "needs": meta.get("needs", ""), "checks": {}}
                for p in (sorted(SCEN) if run_all else [prop]):
                    rdir = f"{tmp}/replays-{sid}-{p}"
                    rc, out = sh([f"{tmp}/target/checked/sim", "run", SCEN[p], "--tier", tier, "--seed", os.environ.get("VERIF_SEED", "1"),
                                  "--no-evidence", "--replay-dir", rdir])
                    viol = re.findall(r"^VIOLATION property=(\S+) replay=(\S+)", out, re.M)
                    classes = re.findall(r"^  class=(\S+)", out, re.M)
                    entry = {"exit": rc, "violations": len(viol), "classes": classes[:6]}
                    if rc == 1 and viol:
                        # replay the replay files in fresh processes, first to last, until one reproduces
                        entry["replay_reproduced"] = False
                        tried = 0
                        for k, (_, path) in enumerate(viol):
                            if not os.path.exists(path):
                                continue  # beyond the cap on minimised reports: no replay was written for this one
                            tried += 1
                            if tried > 6:
                                break
                            rrc, rout = sh([f"{tmp}/target/checked/sim", "replay", path])
                            if "REPLAY-REPRODUCED" in rout:
                                entry["replay_reproduced"] = True
                                j = json.load(open(path))
                                entry["minimised_to"] = j.get("minimised_to")
                                if k < len(classes):
                                    entry["classes"] = [classes[k]] + [c for i, c in enumerate(classes) if i != k][:5]
                                break
                    elif rc not in (0, 1):
                        entry["error"] = out[-500:]
                    row["checks"][p] = entry
                own = row["checks"][prop]
                row["caught"] = bool(own["exit"] == 1 and own.get("replay_reproduced"))
                row["seconds"] = round(time.time() - t0, 1)
                if not row["caught"]:
                    missed += 1
                results.append(row)
                print(f"{'CAUGHT' if row['caught'] else 'MISSED'} {sid} (breaks {prop}) " +
                      " ".join(f"{p}:exit{e['exit']}" + (f"[{e['classes'][0]}]" if e.get('classes') else "") for p, e in row["checks"].items()), flush=True)
            finally:
                sh(["git", "-C", REPO, "worktree", "remove", "--force", f"{tmp}/repo"])
        path = f"{VERIF}/seeded/RESULTS.json"
        if not only:
            json.dump({"tier": tier, "all_checks": run_all, "results": results}, open(path, "w"), indent=1)
        elif os.path.exists(path):
            # a partial re-run replaces the rows of the changes it covered
            old = json.load(open(path))
            fresh = {r["seeded"]: r for r in results}
            old["results"] = [fresh.pop(r["seeded"], r) for r in old["results"]] + list(fresh.values())
            json.dump(old, open(path, "w"), indent=1)
        print(f"selftest: {len(results) - missed}/{len(results)} seeded changes caught by the check of the property they break")
        return 1 if missed else 0
    finally:
        sh(["git", "-C", REPO, "worktree", "prune"])
        if not keep:
            shutil.rmtree(tmp, ignore_errors=True)

sys.exit(main())
