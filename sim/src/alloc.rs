//! Accounting allocator: a pass-through to the system allocator that records, per
//! thread, the largest single request made since the last reset. This is the
//! "memory-limited node" seam of the C10 simulation: the request is served (it is
//! untouched virtual memory) and merely recorded, so the oracle can say that on a
//! node with a memory limit the same call would have been an allocation failure,
//! which in Rust aborts the process.

use std::alloc::{GlobalAlloc, Layout, System};
use std::cell::Cell;

pub struct Accounting;

thread_local! {
    static MAX_REQ: Cell<usize> = const { Cell::new(0) };
    static N_REQ: Cell<u64> = const { Cell::new(0) };
}

#[inline]
fn note(size: usize) {
    let _ = MAX_REQ.try_with(|m| {
        if size > m.get() {
            m.set(size);
        }
    });
    let _ = N_REQ.try_with(|n| n.set(n.get() + 1));
}

unsafe impl GlobalAlloc for Accounting {
    unsafe fn alloc(&self, layout: Layout) -> *mut u8 {
        note(layout.size());
        System.alloc(layout)
    }
    unsafe fn dealloc(&self, ptr: *mut u8, layout: Layout) {
        System.dealloc(ptr, layout)
    }
    unsafe fn alloc_zeroed(&self, layout: Layout) -> *mut u8 {
        note(layout.size());
        System.alloc_zeroed(layout)
    }
    unsafe fn realloc(&self, ptr: *mut u8, layout: Layout, new_size: usize) -> *mut u8 {
        note(new_size);
        System.realloc(ptr, layout, new_size)
    }
}

pub fn reset() {
    MAX_REQ.with(|m| m.set(0));
    N_REQ.with(|n| n.set(0));
}

pub fn max_request() -> usize {
    MAX_REQ.with(|m| m.get())
}

pub fn requests() -> u64 {
    N_REQ.with(|n| n.get())
}
