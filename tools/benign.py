#!/usr/bin/env python3
"""No-false-alarm proof on changed code. For every behaviour-preserving change under /verif/benign/<id>/patch.diff
(refactors written by sub-agents that were asked to keep all four properties intact), build the simulator against a
scratch worktree of /repo with the patch applied and run all four quick checks: every one must exit 0.
A non-zero exit is either a real regression the refactor introduced (then it does not belong in /verif/benign) or a
false alarm of the check (then the check must be corrected). Scratch copies live under /tmp and are removed.
usage: benign.py [--only <substring>]      exit 0: no alarm anywhere; 1: some check alarmed; 2: harness error"""
import json, os, re, shutil, subprocess, sys, tempfile, time
VERIF, REPO = "/verif", "/repo"
SCEN = {"C07": "chain", "C10": "corrupt", "C17": "batch", "C20": "limits"}

def sh(cmd, cwd=None, env=None):
    p = subprocess.run(cmd, cwd=cwd, env=env, stdout=subprocess.PIPE, stderr=subprocess.STDOUT, text=True)
    return p.returncode, p.stdout

def main():
    args = sys.argv[1:]
    only = args[args.index("--only") + 1] if "--only" in args else None
    ids = sorted(d for d in os.listdir(f"{VERIF}/benign") if os.path.isfile(f"{VERIF}/benign/{d}/patch.diff"))
    if only:
        ids = [d for d in ids if only in d]
    tmp = tempfile.mkdtemp(prefix="verif-benign-")
    env = dict(os.environ, CARGO_NET_OFFLINE="true", CARGO_TARGET_DIR=f"{tmp}/target")
    alarms, rows = 0, []
    try:
        shutil.copytree(f"{VERIF}/sim", f"{tmp}/sim", ignore=shutil.ignore_patterns("target"))
        toml = open(f"{tmp}/sim/Cargo.toml").read().replace('path = "/repo"', f'path = "{tmp}/repo"')
        open(f"{tmp}/sim/Cargo.toml", "w").write(toml)
        for bid in ids:
            rc, out = sh(["git", "-C", REPO, "worktree", "add", "--detach", "-f", f"{tmp}/repo", "HEAD"])
            if rc != 0:
                print(out); return 2
            try:
                rc, out = sh(["git", "-C", f"{tmp}/repo", "apply", f"{VERIF}/benign/{bid}/patch.diff"])
                if rc != 0:
                    print(out); print(f"HARNESS-ERROR: {bid}/patch.diff does not apply"); return 2
                for prof in ("checked", "shipped", "dev", "aborting"):
                    rc, out = sh(["cargo", "build", "--offline", "--profile", prof], cwd=f"{tmp}/sim", env=env)
                    if rc != 0:
                        print(out[-2000:]); print(f"HARNESS-ERROR: build failed with {bid}"); return 2
                row = {"benign": bid, "checks": {}}
                for p, scen in SCEN.items():
                    rc, out = sh([f"{tmp}/target/checked/sim", "run", scen, "--tier", "quick", "--seed", os.environ.get("VERIF_SEED", "1"),
                                  "--no-evidence", "--replay-dir", f"{tmp}/rp-{bid}-{p}"])
                    classes = re.findall(r"^  class=(\S+)", out, re.M)
                    row["checks"][p] = {"exit": rc, "classes": classes[:4]}
                    if rc != 0:
                        alarms += 1
                        for f in (os.listdir(f"{tmp}/rp-{bid}-{p}") if os.path.isdir(f"{tmp}/rp-{bid}-{p}") else [])[:2]:
                            os.makedirs(f"{VERIF}/replays", exist_ok=True)
                            shutil.copy(f"{tmp}/rp-{bid}-{p}/{f}", f"{VERIF}/replays/benign-{bid}-{f}")
                rows.append(row)
                print(("CLEAN " if all(c["exit"] == 0 for c in row["checks"].values()) else "ALARM ") + bid + " " +
                      " ".join(f"{p}:exit{c['exit']}" + (f"[{c['classes'][0]}]" if c["classes"] else "") for p, c in row["checks"].items()), flush=True)
            finally:
                sh(["git", "-C", REPO, "worktree", "remove", "--force", f"{tmp}/repo"])
        path = f"{VERIF}/benign/RESULTS.json"
        if not only or not os.path.exists(path):
            json.dump({"results": rows}, open(path, "w"), indent=1)
        else:
            old = json.load(open(path))
            fresh = {r["benign"]: r for r in rows}
            old["results"] = [fresh.pop(r["benign"], r) for r in old["results"]] + list(fresh.values())
            json.dump(old, open(path, "w"), indent=1)
        print(f"benign: {len(rows)} behaviour-preserving changes x 4 checks, alarms: {alarms}")
        return 1 if alarms else 0
    finally:
        sh(["git", "-C", REPO, "worktree", "prune"])
        shutil.rmtree(tmp, ignore_errors=True)
sys.exit(main())
