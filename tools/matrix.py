#!/usr/bin/env python3
"""Prints the catch matrix of /verif/seeded/RESULTS.json as a markdown table (pasted into DESIGN.md 7.6)."""
import json, os
r = json.load(open("/verif/seeded/RESULTS.json"))
print(f"Tier: {r['tier']}; every check run against every change: {r['all_checks']}. `X[class]` = exit 1 with a VIOLATION whose replay reproduces; `-` = exit 0.\n")
print("| seeded change | breaks | needs, to manifest | C07 | C10 | C17 | C20 | minimised to |")
print("|---|---|---|---|---|---|---|---|")
for row in r["results"]:
    meta = json.load(open(f"/verif/seeded/{row['seeded']}/meta.json"))
    cells = []
    for p in ("C07", "C10", "C17", "C20"):
        e = row["checks"].get(p)
        if e is None:
            cells.append("")
        elif e["exit"] == 1:
            c = (e.get("classes") or ["?"])[0]
            c = c.split(":")
            c = ":".join(c[:2]) if len(c) > 1 else c[0]
            cells.append(("X" if e.get("replay_reproduced") else "x(no replay)") + f"[{c[:40]}]")
        elif e["exit"] == 0:
            cells.append("-")
        else:
            cells.append(f"err{e['exit']}")
    own = row["checks"][row["breaks"]]
    mt = json.dumps(own.get("minimised_to")) if own.get("minimised_to") else ""
    needs = (meta.get("needs") or "").replace("|", "/")[:110]
    print(f"| {row['seeded']} | {row['breaks']} | {needs} | " + " | ".join(cells) + f" | {mt} |")
caught = sum(1 for x in r["results"] if x["caught"])
print(f"\n{caught}/{len(r['results'])} caught by the check of the property they break.")
