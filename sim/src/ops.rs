//! The library operations the `chain` and `batch` scenarios drive, as explicit data:
//! every argument is written out, so a case is replayable without the PRNG.

use crate::mval::{self, MVal};
use jsonb::jsonpath as jp;
use jsonb::keypath::KeyPath;
use serde_json::{json, Value as J};
use std::borrow::Cow;
use std::collections::BTreeSet;

// ---------------------------------------------------------------------------
// key paths
// ---------------------------------------------------------------------------

#[derive(Clone, Debug, PartialEq)]
pub enum KP {
    Idx(i32),
    Name(String),
    QName(String),
}

impl KP {
    fn to_lib(&self) -> KeyPath<'static> {
        match self {
            KP::Idx(i) => KeyPath::Index(*i),
            KP::Name(s) => KeyPath::Name(Cow::Owned(s.clone())),
            KP::QName(s) => KeyPath::QuotedName(Cow::Owned(s.clone())),
        }
    }
    fn to_json(&self) -> J {
        match self {
            KP::Idx(i) => json!({"idx": i}),
            KP::Name(s) => json!({"name": s}),
            KP::QName(s) => json!({"qname": s}),
        }
    }
    fn from_json(j: &J) -> Result<KP, String> {
        if let Some(i) = j.get("idx").and_then(|v| v.as_i64()) {
            Ok(KP::Idx(i as i32))
        } else if let Some(s) = j.get("name").and_then(|v| v.as_str()) {
            Ok(KP::Name(s.to_string()))
        } else if let Some(s) = j.get("qname").and_then(|v| v.as_str()) {
            Ok(KP::QName(s.to_string()))
        } else {
            Err("bad key path element".into())
        }
    }
}

// ---------------------------------------------------------------------------
// JSONPath model AST (the subset whose meaning is the same under every reading of the README)
// ---------------------------------------------------------------------------

#[derive(Clone, Debug, PartialEq)]
pub enum MIdx {
    Idx(i32),
    /// `last + k` (k may be negative)
    Last(i32),
}

#[derive(Clone, Debug, PartialEq)]
pub enum AIdx {
    One(MIdx),
    Slice(MIdx, MIdx),
}

#[derive(Clone, Debug, PartialEq)]
pub enum Step {
    /// style: 0 `.name`, 1 `:name`, 2 `["name"]`
    Field(u8, String),
    DotWild,
    BrWild,
    Indices(Vec<AIdx>),
    Filter(MExpr),
}

#[derive(Clone, Debug, PartialEq)]
pub enum Operand {
    /// path from `@` (true) or `$` (false); steps never contain filters
    Path(bool, Vec<Step>),
    Lit(MVal),
}

#[derive(Clone, Debug, PartialEq)]
pub enum MExpr {
    Eq(Operand, Operand),
    /// ordering / inequality comparison; op is one of "!=", "<", "<=", ">", ">="
    Cmp(String, Operand, Operand),
    Exists(bool, Vec<Step>),
    And(Box<MExpr>, Box<MExpr>),
    Or(Box<MExpr>, Box<MExpr>),
}

#[derive(Clone, Debug, PartialEq)]
pub struct MPath {
    /// steps after the leading `$`
    pub steps: Vec<Step>,
    /// when set, the whole path is the predicate expression (steps empty)
    pub predicate: Option<MExpr>,
    /// the path is handed over without its leading `$` element, the AST the parser produces for the Snowflake-style
    /// spellings (`car.no`, `[1].a`); it selects exactly what the `$`-rooted path selects
    pub rootless: bool,
}

fn idx_to_lib(i: &MIdx) -> jp::Index {
    match i {
        MIdx::Idx(v) => jp::Index::Index(*v),
        MIdx::Last(v) => jp::Index::LastIndex(*v),
    }
}

fn lit_to_lib(v: &MVal) -> jp::PathValue<'static> {
    match v {
        MVal::Null => jp::PathValue::Null,
        MVal::Bool(b) => jp::PathValue::Boolean(*b),
        MVal::I64(n) => jp::PathValue::Number(jsonb::Number::Int64(*n)),
        MVal::U64(n) => jp::PathValue::Number(jsonb::Number::UInt64(*n)),
        MVal::F64(b) => jp::PathValue::Number(jsonb::Number::Float64(f64::from_bits(*b))),
        MVal::Str(s) => jp::PathValue::String(Cow::Owned(s.clone())),
        _ => unreachable!("container literal in a path"),
    }
}

fn step_to_lib(s: &Step) -> jp::Path<'static> {
    match s {
        Step::Field(0, n) => jp::Path::DotField(Cow::Owned(n.clone())),
        Step::Field(1, n) => jp::Path::ColonField(Cow::Owned(n.clone())),
        Step::Field(_, n) => jp::Path::ObjectField(Cow::Owned(n.clone())),
        Step::DotWild => jp::Path::DotWildcard,
        Step::BrWild => jp::Path::BracketWildcard,
        Step::Indices(xs) => jp::Path::ArrayIndices(
            xs.iter()
                .map(|x| match x {
                    AIdx::One(i) => jp::ArrayIndex::Index(idx_to_lib(i)),
                    AIdx::Slice(a, b) => jp::ArrayIndex::Slice((idx_to_lib(a), idx_to_lib(b))),
                })
                .collect(),
        ),
        Step::Filter(e) => jp::Path::FilterExpr(Box::new(expr_to_lib(e))),
    }
}

fn rooted(cur: bool, steps: &[Step]) -> Vec<jp::Path<'static>> {
    let mut v = vec![if cur { jp::Path::Current } else { jp::Path::Root }];
    v.extend(steps.iter().map(step_to_lib));
    v
}

fn operand_to_lib(o: &Operand) -> jp::Expr<'static> {
    match o {
        Operand::Path(cur, steps) => jp::Expr::Paths(rooted(*cur, steps)),
        Operand::Lit(v) => jp::Expr::Value(Box::new(lit_to_lib(v))),
    }
}

fn expr_to_lib(e: &MExpr) -> jp::Expr<'static> {
    match e {
        MExpr::Eq(l, r) => jp::Expr::BinaryOp {
            op: jp::BinaryOperator::Eq,
            left: Box::new(operand_to_lib(l)),
            right: Box::new(operand_to_lib(r)),
        },
        MExpr::Cmp(op, l, r) => jp::Expr::BinaryOp {
            op: match op.as_str() {
                "!=" => jp::BinaryOperator::NotEq,
                "<" => jp::BinaryOperator::Lt,
                "<=" => jp::BinaryOperator::Lte,
                ">" => jp::BinaryOperator::Gt,
                _ => jp::BinaryOperator::Gte,
            },
            left: Box::new(operand_to_lib(l)),
            right: Box::new(operand_to_lib(r)),
        },
        MExpr::Exists(cur, steps) => jp::Expr::FilterFunc(jp::FilterFunc::Exists(rooted(*cur, steps))),
        MExpr::And(l, r) => jp::Expr::BinaryOp {
            op: jp::BinaryOperator::And,
            left: Box::new(expr_to_lib(l)),
            right: Box::new(expr_to_lib(r)),
        },
        MExpr::Or(l, r) => jp::Expr::BinaryOp {
            op: jp::BinaryOperator::Or,
            left: Box::new(expr_to_lib(l)),
            right: Box::new(expr_to_lib(r)),
        },
    }
}

impl MPath {
    pub fn to_lib(&self) -> jp::JsonPath<'static> {
        match &self.predicate {
            Some(e) => jp::JsonPath { paths: vec![jp::Path::Predicate(Box::new(expr_to_lib(e)))] },
            None if self.rootless => jp::JsonPath { paths: self.steps.iter().map(step_to_lib).collect() },
            None => jp::JsonPath { paths: rooted(false, &self.steps) },
        }
    }
    /// The library's own rendering (used in replay files for readability only).
    pub fn display(&self) -> String {
        format!("{}", self.to_lib())
    }
    pub fn has_filter(&self) -> bool {
        self.predicate.is_some() || self.steps.iter().any(|s| matches!(s, Step::Filter(_)))
    }
}

// ---- JSON for replay files -------------------------------------------------

fn midx_json(i: &MIdx) -> J {
    match i {
        MIdx::Idx(v) => json!({"i": v}),
        MIdx::Last(v) => json!({"last": v}),
    }
}
fn midx_from(j: &J) -> Result<MIdx, String> {
    if let Some(v) = j.get("i").and_then(|v| v.as_i64()) {
        Ok(MIdx::Idx(v as i32))
    } else if let Some(v) = j.get("last").and_then(|v| v.as_i64()) {
        Ok(MIdx::Last(v as i32))
    } else {
        Err("bad index".into())
    }
}
fn steps_json(s: &[Step]) -> J {
    J::Array(s.iter().map(step_json).collect())
}
fn steps_from(j: &J) -> Result<Vec<Step>, String> {
    j.as_array().ok_or("steps")?.iter().map(step_from).collect()
}
fn step_json(s: &Step) -> J {
    match s {
        Step::Field(st, n) => json!({"field": n, "style": st}),
        Step::DotWild => json!(".*"),
        Step::BrWild => json!("[*]"),
        Step::Indices(xs) => json!({"indices": xs.iter().map(|x| match x {
            AIdx::One(i) => midx_json(i),
            AIdx::Slice(a, b) => json!({"from": midx_json(a), "to": midx_json(b)}),
        }).collect::<Vec<_>>()}),
        Step::Filter(e) => json!({"filter": expr_json(e)}),
    }
}
fn step_from(j: &J) -> Result<Step, String> {
    if j == ".*" {
        return Ok(Step::DotWild);
    }
    if j == "[*]" {
        return Ok(Step::BrWild);
    }
    if let Some(n) = j.get("field").and_then(|v| v.as_str()) {
        return Ok(Step::Field(j["style"].as_u64().unwrap_or(0) as u8, n.to_string()));
    }
    if let Some(xs) = j.get("indices").and_then(|v| v.as_array()) {
        let mut out = vec![];
        for x in xs {
            if x.get("from").is_some() {
                out.push(AIdx::Slice(midx_from(&x["from"])?, midx_from(&x["to"])?));
            } else {
                out.push(AIdx::One(midx_from(x)?));
            }
        }
        return Ok(Step::Indices(out));
    }
    if let Some(e) = j.get("filter") {
        return Ok(Step::Filter(expr_from(e)?));
    }
    Err(format!("bad step {j}"))
}
fn operand_json(o: &Operand) -> J {
    match o {
        Operand::Path(cur, s) => json!({"path_from": if *cur { "@" } else { "$" }, "steps": steps_json(s)}),
        Operand::Lit(v) => json!({"lit": mval::to_replay(v)}),
    }
}
fn operand_from(j: &J) -> Result<Operand, String> {
    if let Some(l) = j.get("lit") {
        Ok(Operand::Lit(mval::from_replay(l)?))
    } else {
        Ok(Operand::Path(j["path_from"] == "@", steps_from(&j["steps"])?))
    }
}
fn expr_json(e: &MExpr) -> J {
    match e {
        MExpr::Eq(l, r) => json!({"eq": [operand_json(l), operand_json(r)]}),
        MExpr::Cmp(op, l, r) => json!({"cmp": op, "args": [operand_json(l), operand_json(r)]}),
        MExpr::Exists(cur, s) => json!({"exists_from": if *cur { "@" } else { "$" }, "steps": steps_json(s)}),
        MExpr::And(l, r) => json!({"and": [expr_json(l), expr_json(r)]}),
        MExpr::Or(l, r) => json!({"or": [expr_json(l), expr_json(r)]}),
    }
}
fn expr_from(j: &J) -> Result<MExpr, String> {
    if let Some(op) = j.get("cmp").and_then(|v| v.as_str()) {
        let a = j["args"].as_array().ok_or("cmp args")?;
        Ok(MExpr::Cmp(op.to_string(), operand_from(&a[0])?, operand_from(&a[1])?))
    } else if let Some(a) = j.get("eq").and_then(|v| v.as_array()) {
        Ok(MExpr::Eq(operand_from(&a[0])?, operand_from(&a[1])?))
    } else if j.get("exists_from").is_some() {
        Ok(MExpr::Exists(j["exists_from"] == "@", steps_from(&j["steps"])?))
    } else if let Some(a) = j.get("and").and_then(|v| v.as_array()) {
        Ok(MExpr::And(Box::new(expr_from(&a[0])?), Box::new(expr_from(&a[1])?)))
    } else if let Some(a) = j.get("or").and_then(|v| v.as_array()) {
        Ok(MExpr::Or(Box::new(expr_from(&a[0])?), Box::new(expr_from(&a[1])?)))
    } else {
        Err(format!("bad expr {j}"))
    }
}
pub fn mpath_json(p: &MPath) -> J {
    match &p.predicate {
        Some(e) => json!({"predicate": expr_json(e), "text": p.display()}),
        None => json!({"steps": steps_json(&p.steps), "text": p.display(), "rootless": p.rootless}),
    }
}
pub fn mpath_from(j: &J) -> Result<MPath, String> {
    if let Some(e) = j.get("predicate") {
        Ok(MPath { steps: vec![], predicate: Some(expr_from(e)?), rootless: false })
    } else {
        Ok(MPath { steps: steps_from(&j["steps"])?, predicate: None, rootless: j["rootless"].as_bool().unwrap_or(false) })
    }
}

// ---------------------------------------------------------------------------
// operations
// ---------------------------------------------------------------------------

#[derive(Clone, Copy, Debug, PartialEq, Eq)]
pub enum SelApi {
    GetByPath,
    GetByPathFirst,
    GetByPathArray,
    SelAll,
    SelFirst,
    SelArray,
    SelMixed,
}

impl SelApi {
    pub const ALL: &'static [SelApi] = &[
        SelApi::GetByPath,
        SelApi::GetByPathFirst,
        SelApi::GetByPathArray,
        SelApi::SelAll,
        SelApi::SelFirst,
        SelApi::SelArray,
        SelApi::SelMixed,
    ];
    pub fn name(&self) -> &'static str {
        match self {
            SelApi::GetByPath => "get_by_path",
            SelApi::GetByPathFirst => "get_by_path_first",
            SelApi::GetByPathArray => "get_by_path_array",
            SelApi::SelAll => "select_all",
            SelApi::SelFirst => "select_first",
            SelApi::SelArray => "select_array",
            SelApi::SelMixed => "select_mixed",
        }
    }
    pub fn from_name(s: &str) -> Option<SelApi> {
        SelApi::ALL.iter().copied().find(|a| a.name() == s)
    }
    /// 0 all, 1 first, 2 array, 3 mixed
    pub fn mode(&self) -> u8 {
        match self {
            SelApi::SelAll => 0,
            SelApi::GetByPathFirst | SelApi::SelFirst => 1,
            SelApi::GetByPathArray | SelApi::SelArray => 2,
            SelApi::GetByPath | SelApi::SelMixed => 3,
        }
    }
    /// the get_by_path* wrappers accept JSON text; Selector::select takes JSONB only
    pub fn accepts_text(&self) -> bool {
        matches!(self, SelApi::GetByPath | SelApi::GetByPathFirst | SelApi::GetByPathArray)
    }
}

/// Arguments named `v`, `l`, `r`, `a`, `b`, `new`, `items` are register indices.
#[derive(Clone, Debug, PartialEq)]
pub enum Op {
    Concat { l: usize, r: usize },
    DeleteByName { v: usize, name: String },
    DeleteByIndex { v: usize, idx: i32 },
    DeleteByKeypath { v: usize, path: Vec<KP> },
    ArrayInsert { v: usize, pos: i32, new: usize },
    ObjectInsert { v: usize, key: String, new: usize, update: bool },
    ObjectDelete { v: usize, keys: Vec<String> },
    ObjectPick { v: usize, keys: Vec<String> },
    StripNulls { v: usize },
    BuildArray { items: Vec<usize> },
    BuildObject { items: Vec<(String, usize)> },
    ArrayDistinct { v: usize },
    ArrayIntersection { a: usize, b: usize },
    ArrayExcept { a: usize, b: usize },
    GetByIndex { v: usize, idx: usize },
    GetByName { v: usize, name: String, ignore_case: bool },
    GetByKeypath { v: usize, path: Vec<KP> },
    ArrayValues { v: usize },
    ObjectEach { v: usize },
    ObjectKeys { v: usize },
    Select { v: usize, path: MPath, api: SelApi },
    // buffer writers used by `batch` only
    WriteToVec { v: usize },
    LazyWrite { v: usize, raw: bool },
    ConvertToComparable { v: usize },
    /// Number::compact_encode into the caller's Vec (its io::Write seam); a no-op when the register is not a number
    NumberEncode { v: usize },
}

impl Op {
    pub fn name(&self) -> &'static str {
        match self {
            Op::Concat { .. } => "concat",
            Op::DeleteByName { .. } => "delete_by_name",
            Op::DeleteByIndex { .. } => "delete_by_index",
            Op::DeleteByKeypath { .. } => "delete_by_keypath",
            Op::ArrayInsert { .. } => "array_insert",
            Op::ObjectInsert { .. } => "object_insert",
            Op::ObjectDelete { .. } => "object_delete",
            Op::ObjectPick { .. } => "object_pick",
            Op::StripNulls { .. } => "strip_nulls",
            Op::BuildArray { .. } => "build_array",
            Op::BuildObject { .. } => "build_object",
            Op::ArrayDistinct { .. } => "array_distinct",
            Op::ArrayIntersection { .. } => "array_intersection",
            Op::ArrayExcept { .. } => "array_except",
            Op::GetByIndex { .. } => "get_by_index",
            Op::GetByName { .. } => "get_by_name",
            Op::GetByKeypath { .. } => "get_by_keypath",
            Op::ArrayValues { .. } => "array_values",
            Op::ObjectEach { .. } => "object_each",
            Op::ObjectKeys { .. } => "object_keys",
            Op::Select { api, .. } => api.name(),
            Op::WriteToVec { .. } => "Value::write_to_vec",
            Op::LazyWrite { raw: true, .. } => "LazyValue::Raw::write_to_vec",
            Op::LazyWrite { raw: false, .. } => "LazyValue::Value::write_to_vec",
            Op::ConvertToComparable { .. } => "convert_to_comparable",
            Op::NumberEncode { .. } => "Number::compact_encode",
        }
    }

    /// Registers read, in argument order.
    pub fn reads(&self) -> Vec<usize> {
        match self {
            Op::Concat { l, r } => vec![*l, *r],
            Op::ArrayInsert { v, new, .. } | Op::ObjectInsert { v, new, .. } => vec![*v, *new],
            Op::ArrayIntersection { a, b } | Op::ArrayExcept { a, b } => vec![*a, *b],
            Op::BuildArray { items } => items.clone(),
            Op::BuildObject { items } => items.iter().map(|(_, i)| *i).collect(),
            Op::DeleteByName { v, .. }
            | Op::DeleteByIndex { v, .. }
            | Op::DeleteByKeypath { v, .. }
            | Op::ObjectDelete { v, .. }
            | Op::ObjectPick { v, .. }
            | Op::StripNulls { v }
            | Op::ArrayDistinct { v }
            | Op::GetByIndex { v, .. }
            | Op::GetByName { v, .. }
            | Op::GetByKeypath { v, .. }
            | Op::ArrayValues { v }
            | Op::ObjectEach { v }
            | Op::ObjectKeys { v }
            | Op::Select { v, .. }
            | Op::WriteToVec { v }
            | Op::LazyWrite { v, .. }
            | Op::ConvertToComparable { v }
            | Op::NumberEncode { v } => vec![*v],
        }
    }

    /// Does the function write into a caller-supplied buffer?
    pub fn writes_buffer(&self) -> bool {
        !matches!(
            self,
            Op::GetByIndex { .. } | Op::GetByName { .. } | Op::GetByKeypath { .. } | Op::ArrayValues { .. } | Op::ObjectEach { .. } | Op::ObjectKeys { .. }
        )
    }

    /// Can argument number `pos` (position in `reads()`) be passed as JSON text?
    pub fn arg_accepts_text(&self, pos: usize) -> bool {
        match self {
            Op::BuildArray { .. } | Op::BuildObject { .. } | Op::WriteToVec { .. } | Op::LazyWrite { .. } | Op::NumberEncode { .. } => false,
            Op::Select { api, .. } => api.accepts_text(),
            _ => pos < 2,
        }
    }

    /// For two-document functions other than `concat` the text branch is only taken from the first argument.
    pub fn second_text_needs_first_text(&self) -> bool {
        matches!(self, Op::ArrayInsert { .. } | Op::ObjectInsert { .. } | Op::ArrayIntersection { .. } | Op::ArrayExcept { .. })
    }

    pub fn to_json(&self) -> J {
        let kp = |p: &Vec<KP>| J::Array(p.iter().map(|k| k.to_json()).collect());
        match self {
            Op::Concat { l, r } => json!({"op": "concat", "l": l, "r": r}),
            Op::DeleteByName { v, name } => json!({"op": "delete_by_name", "v": v, "name": name}),
            Op::DeleteByIndex { v, idx } => json!({"op": "delete_by_index", "v": v, "idx": idx}),
            Op::DeleteByKeypath { v, path } => json!({"op": "delete_by_keypath", "v": v, "path": kp(path)}),
            Op::ArrayInsert { v, pos, new } => json!({"op": "array_insert", "v": v, "pos": pos, "new": new}),
            Op::ObjectInsert { v, key, new, update } => json!({"op": "object_insert", "v": v, "key": key, "new": new, "update": update}),
            Op::ObjectDelete { v, keys } => json!({"op": "object_delete", "v": v, "keys": keys}),
            Op::ObjectPick { v, keys } => json!({"op": "object_pick", "v": v, "keys": keys}),
            Op::StripNulls { v } => json!({"op": "strip_nulls", "v": v}),
            Op::BuildArray { items } => json!({"op": "build_array", "items": items}),
            Op::BuildObject { items } => json!({"op": "build_object", "items": items.iter().map(|(k, i)| json!([k, i])).collect::<Vec<_>>()}),
            Op::ArrayDistinct { v } => json!({"op": "array_distinct", "v": v}),
            Op::ArrayIntersection { a, b } => json!({"op": "array_intersection", "a": a, "b": b}),
            Op::ArrayExcept { a, b } => json!({"op": "array_except", "a": a, "b": b}),
            Op::GetByIndex { v, idx } => json!({"op": "get_by_index", "v": v, "idx": idx}),
            Op::GetByName { v, name, ignore_case } => json!({"op": "get_by_name", "v": v, "name": name, "ignore_case": ignore_case}),
            Op::GetByKeypath { v, path } => json!({"op": "get_by_keypath", "v": v, "path": kp(path)}),
            Op::ArrayValues { v } => json!({"op": "array_values", "v": v}),
            Op::ObjectEach { v } => json!({"op": "object_each", "v": v}),
            Op::ObjectKeys { v } => json!({"op": "object_keys", "v": v}),
            Op::Select { v, path, api } => json!({"op": "select", "api": api.name(), "v": v, "path": mpath_json(path)}),
            Op::WriteToVec { v } => json!({"op": "write_to_vec", "v": v}),
            Op::LazyWrite { v, raw } => json!({"op": "lazy_write", "v": v, "raw": raw}),
            Op::ConvertToComparable { v } => json!({"op": "convert_to_comparable", "v": v}),
            Op::NumberEncode { v } => json!({"op": "number_compact_encode", "v": v}),
        }
    }

    pub fn from_json(j: &J) -> Result<Op, String> {
        let u = |k: &str| j[k].as_u64().map(|v| v as usize).ok_or_else(|| format!("op field {k} in {j}"));
        let i = |k: &str| j[k].as_i64().map(|v| v as i32).ok_or_else(|| format!("op field {k} in {j}"));
        let s = |k: &str| j[k].as_str().map(|v| v.to_string()).ok_or_else(|| format!("op field {k} in {j}"));
        let b = |k: &str| j[k].as_bool().ok_or_else(|| format!("op field {k} in {j}"));
        let strs = |k: &str| -> Result<Vec<String>, String> {
            Ok(j[k].as_array().ok_or_else(|| format!("op field {k}"))?.iter().filter_map(|x| x.as_str().map(|s| s.to_string())).collect())
        };
        let kp = |k: &str| -> Result<Vec<KP>, String> { j[k].as_array().ok_or_else(|| format!("op field {k}"))?.iter().map(KP::from_json).collect() };
        Ok(match j["op"].as_str().unwrap_or("") {
            "concat" => Op::Concat { l: u("l")?, r: u("r")? },
            "delete_by_name" => Op::DeleteByName { v: u("v")?, name: s("name")? },
            "delete_by_index" => Op::DeleteByIndex { v: u("v")?, idx: i("idx")? },
            "delete_by_keypath" => Op::DeleteByKeypath { v: u("v")?, path: kp("path")? },
            "array_insert" => Op::ArrayInsert { v: u("v")?, pos: i("pos")?, new: u("new")? },
            "object_insert" => Op::ObjectInsert { v: u("v")?, key: s("key")?, new: u("new")?, update: b("update")? },
            "object_delete" => Op::ObjectDelete { v: u("v")?, keys: strs("keys")? },
            "object_pick" => Op::ObjectPick { v: u("v")?, keys: strs("keys")? },
            "strip_nulls" => Op::StripNulls { v: u("v")? },
            "build_array" => Op::BuildArray { items: j["items"].as_array().ok_or("items")?.iter().filter_map(|x| x.as_u64().map(|v| v as usize)).collect() },
            "build_object" => Op::BuildObject {
                items: j["items"]
                    .as_array()
                    .ok_or("items")?
                    .iter()
                    .map(|p| Ok((p[0].as_str().ok_or("key")?.to_string(), p[1].as_u64().ok_or("reg")? as usize)))
                    .collect::<Result<Vec<_>, String>>()?,
            },
            "array_distinct" => Op::ArrayDistinct { v: u("v")? },
            "array_intersection" => Op::ArrayIntersection { a: u("a")?, b: u("b")? },
            "array_except" => Op::ArrayExcept { a: u("a")?, b: u("b")? },
            "get_by_index" => Op::GetByIndex { v: u("v")?, idx: u("idx")? },
            "get_by_name" => Op::GetByName { v: u("v")?, name: s("name")?, ignore_case: b("ignore_case")? },
            "get_by_keypath" => Op::GetByKeypath { v: u("v")?, path: kp("path")? },
            "array_values" => Op::ArrayValues { v: u("v")? },
            "object_each" => Op::ObjectEach { v: u("v")? },
            "object_keys" => Op::ObjectKeys { v: u("v")? },
            "select" => Op::Select { v: u("v")?, path: mpath_from(&j["path"])?, api: SelApi::from_name(&s("api")?).ok_or("api")? },
            "write_to_vec" => Op::WriteToVec { v: u("v")? },
            "lazy_write" => Op::LazyWrite { v: u("v")?, raw: b("raw")? },
            "convert_to_comparable" => Op::ConvertToComparable { v: u("v")? },
            "number_compact_encode" => Op::NumberEncode { v: u("v")? },
            o => return Err(format!("unknown op {o:?}")),
        })
    }
}

// ---------------------------------------------------------------------------
// calling the library
// ---------------------------------------------------------------------------

#[derive(Debug, Clone, PartialEq)]
pub enum LibOut {
    /// buffer-writing function: Ok, or the error's variant name
    Wrote(Result<(), String>),
    /// value-returning function: None, or the returned documents
    /// (object_each yields key,value,key,value... with keys wrapped as string documents)
    Returned(Option<Vec<Vec<u8>>>),
}

pub fn err_name(e: &jsonb::Error) -> String {
    // what a caller does with an error first: print it
    let _ = e.to_string();
    let s = format!("{:?}", e);
    match s.find('(') {
        Some(i) => s[..i].to_string(),
        None => s,
    }
}

/// Calls the library function named by `op`. `args[i]` are the bytes (JSONB or JSON text)
/// of register `i`; `trees[i]` its tree (needed only by the `Value`-taking writers).
pub fn call(op: &Op, args: &[Vec<u8>], trees: &[MVal], buf: &mut Vec<u8>, offsets: &mut Vec<u64>) -> LibOut {
    call_with(op, args, trees, buf, offsets, None)
}

/// The compiled selector a `Selector::select` call would build: callers that apply one path to many documents
/// (compile once, run per row) keep it and pass it back through `call_with`.
pub fn make_selector(op: &Op) -> Option<jp::Selector<'static>> {
    match op {
        Op::Select { path, api, .. } if !api.accepts_text() => {
            let mode = match api.mode() {
                0 => jp::Mode::All,
                1 => jp::Mode::First,
                2 => jp::Mode::Array,
                _ => jp::Mode::Mixed,
            };
            Some(jp::Selector::new(path.to_lib(), mode))
        }
        _ => None,
    }
}

/// Calls another method of the kept selector (`exists` / `predicate_match`) on the document the selection is about to
/// run on: a caller that asks "is there anything?" before fetching it. The answer is dropped.
pub fn warm_selector<'b>(op: &Op, args: &'b [Vec<u8>], reuse: Option<&'b jp::Selector<'b>>, warm: u8) {
    if let (Some(sel), Op::Select { v, .. }) = (reuse, op) {
        match warm {
            1 => {
                let _ = sel.exists(&args[*v]);
            }
            2 => {
                let _ = sel.predicate_match(&args[*v]);
            }
            _ => {}
        }
    }
}

/// Like `call`; a `Selector::select` operation is executed on `reuse` when one is given (the same compiled
/// selector applied to document after document) instead of on a freshly built one.
pub fn call_with<'b>(op: &Op, args: &'b [Vec<u8>], trees: &[MVal], buf: &mut Vec<u8>, offsets: &mut Vec<u64>, reuse: Option<&'b jp::Selector<'b>>) -> LibOut {
    let w = |r: Result<(), jsonb::Error>| LibOut::Wrote(r.map_err(|e| err_name(&e)));
    if let (Some(sel), Op::Select { v, .. }) = (reuse, op) {
        return w(sel.select(&args[*v], buf, offsets));
    }
    match op {
        Op::Concat { l, r } => w(jsonb::concat(&args[*l], &args[*r], buf)),
        Op::DeleteByName { v, name } => w(jsonb::delete_by_name(&args[*v], name, buf)),
        Op::DeleteByIndex { v, idx } => w(jsonb::delete_by_index(&args[*v], *idx, buf)),
        Op::DeleteByKeypath { v, path } => {
            let p: Vec<KeyPath<'static>> = path.iter().map(|k| k.to_lib()).collect();
            w(jsonb::delete_by_keypath(&args[*v], p.iter(), buf))
        }
        Op::ArrayInsert { v, pos, new } => w(jsonb::array_insert(&args[*v], *pos, &args[*new], buf)),
        Op::ObjectInsert { v, key, new, update } => w(jsonb::object_insert(&args[*v], key, &args[*new], *update, buf)),
        Op::ObjectDelete { v, keys } => {
            let ks: BTreeSet<&str> = keys.iter().map(|s| s.as_str()).collect();
            w(jsonb::object_delete(&args[*v], &ks, buf))
        }
        Op::ObjectPick { v, keys } => {
            let ks: BTreeSet<&str> = keys.iter().map(|s| s.as_str()).collect();
            w(jsonb::object_pick(&args[*v], &ks, buf))
        }
        Op::StripNulls { v } => w(jsonb::strip_nulls(&args[*v], buf)),
        // 0 mod 4 items (not none): a lazy iterator that calls back into the library while the call that consumes it is
        // in progress -- the recursive encoder `build_array(children.map(encode))`, a closure that inspects each item
        Op::BuildArray { items } if !items.is_empty() && items.len() % 4 == 0 => w(jsonb::build_array(
            items.iter().map(|i| {
                let mut scratch = Vec::new();
                let _ = jsonb::build_array([args[*i].as_slice()], &mut scratch);
                let _ = jsonb::build_object([("k", args[*i].as_slice())], &mut scratch);
                let _ = jsonb::type_of(&args[*i]);
                args[*i].as_slice()
            }),
            buf,
        )),
        Op::BuildObject { items } if !items.is_empty() && items.len() % 4 == 0 => w(jsonb::build_object(
            items.iter().map(|(k, i)| {
                let mut scratch = Vec::new();
                let _ = jsonb::build_object([(k.as_str(), args[*i].as_slice())], &mut scratch);
                let _ = jsonb::build_array([args[*i].as_slice()], &mut scratch);
                let _ = jsonb::array_length(&args[*i]);
                (k.as_str(), args[*i].as_slice())
            }),
            buf,
        )),
        // 2 mod 4 items: an iterator that really drops something -- its upper bound is above what it yields (the usual
        // way to skip NULL arguments)
        Op::BuildArray { items } if items.len() % 4 == 2 => {
            let padded: Vec<Option<usize>> = items.iter().flat_map(|i| [None, Some(*i)]).chain([None]).collect();
            w(jsonb::build_array(padded.iter().filter_map(|i| i.map(|i| args[i].as_slice())), buf))
        }
        Op::BuildObject { items } if items.len() % 4 == 2 => {
            let padded: Vec<Option<&(String, usize)>> = items.iter().flat_map(|kv| [None, Some(kv)]).chain([None]).collect();
            w(jsonb::build_object(padded.iter().filter_map(|kv| kv.map(|(k, i)| (k.as_str(), args[*i].as_slice()))), buf))
        }
        // an odd number of items goes through an iterator whose size_hint promises nothing (lower bound 0)
        Op::BuildArray { items } if items.len() % 2 == 1 => w(jsonb::build_array(items.iter().filter(|_| true).map(|i| args[*i].as_slice()), buf)),
        Op::BuildArray { items } => w(jsonb::build_array(items.iter().map(|i| args[*i].as_slice()), buf)),
        Op::BuildObject { items } if items.len() % 2 == 1 => w(jsonb::build_object(items.iter().filter(|_| true).map(|(k, i)| (k.as_str(), args[*i].as_slice())), buf)),
        Op::BuildObject { items } => w(jsonb::build_object(items.iter().map(|(k, i)| (k.as_str(), args[*i].as_slice())), buf)),
        Op::ArrayDistinct { v } => w(jsonb::array_distinct(&args[*v], buf)),
        Op::ArrayIntersection { a, b } => w(jsonb::array_intersection(&args[*a], &args[*b], buf)),
        Op::ArrayExcept { a, b } => w(jsonb::array_except(&args[*a], &args[*b], buf)),
        Op::GetByIndex { v, idx } => LibOut::Returned(jsonb::get_by_index(&args[*v], *idx).map(|d| vec![d])),
        Op::GetByName { v, name, ignore_case } => LibOut::Returned(jsonb::get_by_name(&args[*v], name, *ignore_case).map(|d| vec![d])),
        Op::GetByKeypath { v, path } => {
            let p: Vec<KeyPath<'static>> = path.iter().map(|k| k.to_lib()).collect();
            LibOut::Returned(jsonb::get_by_keypath(&args[*v], p.iter()).map(|d| vec![d]))
        }
        Op::ArrayValues { v } => LibOut::Returned(jsonb::array_values(&args[*v])),
        Op::ObjectEach { v } => LibOut::Returned(jsonb::object_each(&args[*v]).map(|kvs| {
            let mut out = vec![];
            for (k, val) in kvs {
                // keys come back as raw bytes; wrap them as a string document (header + entry + payload)
                let mut d = vec![0x20, 0, 0, 0];
                d.extend_from_slice(&(0x1000_0000u32 | k.len() as u32).to_be_bytes());
                d.extend_from_slice(&k);
                out.push(d);
                out.push(val);
            }
            out
        })),
        Op::ObjectKeys { v } => LibOut::Returned(jsonb::object_keys(&args[*v]).map(|d| vec![d])),
        Op::Select { v, path, api } => {
            let jp_ = path.to_lib();
            match api {
                SelApi::GetByPath => w(jsonb::get_by_path(&args[*v], jp_, buf, offsets)),
                SelApi::GetByPathFirst => w(jsonb::get_by_path_first(&args[*v], jp_, buf, offsets)),
                SelApi::GetByPathArray => w(jsonb::get_by_path_array(&args[*v], jp_, buf, offsets)),
                other => {
                    let mode = match other.mode() {
                        0 => jp::Mode::All,
                        1 => jp::Mode::First,
                        2 => jp::Mode::Array,
                        _ => jp::Mode::Mixed,
                    };
                    let sel = jp::Selector::new(jp_, mode);
                    w(sel.select(&args[*v], buf, offsets))
                }
            }
        }
        Op::WriteToVec { v } => {
            mval::to_value(&trees[*v]).write_to_vec(buf);
            LibOut::Wrote(Ok(()))
        }
        Op::LazyWrite { v, raw } => {
            if *raw {
                jsonb::LazyValue::Raw(Cow::Borrowed(&args[*v])).write_to_vec(buf);
            } else {
                jsonb::LazyValue::Value(mval::to_value(&trees[*v])).write_to_vec(buf);
            }
            LibOut::Wrote(Ok(()))
        }
        Op::ConvertToComparable { v } => {
            jsonb::convert_to_comparable(&args[*v], buf);
            LibOut::Wrote(Ok(()))
        }
        Op::NumberEncode { v } => {
            if let jsonb::Value::Number(n) = mval::to_value(&trees[*v]) {
                let before = buf.len();
                match n.compact_encode(&mut *buf) {
                    // the returned length is not judged: C17 speaks of the bytes appended (compared with the empty-buffer
                    // twin by the scenario) and of the offsets path selection reports, not of this return value
                    Ok(_) => {
                        let _ = before;
                        LibOut::Wrote(Ok(()))
                    }
                    Err(e) => LibOut::Wrote(Err(err_name(&e))),
                }
            } else {
                LibOut::Wrote(Ok(()))
            }
        }
    }
}
