//! Seeded generation of operations whose arguments are derived from the current registers.

use crate::gen::{self, GenCfg, NumProfile, KEYS};
use crate::model;
use crate::mval::MVal;
use crate::ops::{AIdx, KP, MExpr, MIdx, MPath, Op, Operand, SelApi, Step};
use crate::rng::Rng;

pub const CHAIN_KINDS: &[&str] = &[
    "concat", "delete_by_name", "delete_by_index", "delete_by_keypath", "array_insert", "object_insert", "object_delete",
    "object_pick", "strip_nulls", "build_array", "build_object", "array_distinct", "array_intersection", "array_except",
    "get_by_index", "get_by_name", "get_by_keypath", "array_values", "object_each", "object_keys", "select",
];

pub const BATCH_KINDS: &[&str] = &[
    "concat", "delete_by_name", "delete_by_index", "delete_by_keypath", "array_insert", "object_insert", "object_delete",
    "object_pick", "strip_nulls", "build_array", "build_object", "array_distinct", "array_intersection", "array_except",
    "select", "write_to_vec", "lazy_write", "convert_to_comparable", "number_compact_encode",
];

/// Picks a register, preferring (4 in 5) one whose root satisfies `want`.
fn pick_reg(r: &mut Rng, regs: &[MVal], want: impl Fn(&MVal) -> bool) -> usize {
    let good: Vec<usize> = (0..regs.len()).filter(|i| want(&regs[*i])).collect();
    if !good.is_empty() && r.chance(4, 5) {
        *r.pick(&good)
    } else {
        r.idx(regs.len())
    }
}

fn is_obj(v: &MVal) -> bool {
    matches!(v, MVal::Obj(_))
}
fn is_arr(v: &MVal) -> bool {
    matches!(v, MVal::Arr(_))
}

fn some_key(r: &mut Rng, v: &MVal, cfg: &GenCfg) -> String {
    let keys: Vec<&String> = match v {
        MVal::Obj(m) => m.keys().collect(),
        _ => vec![],
    };
    if !keys.is_empty() && r.chance(3, 5) {
        (*r.pick(&keys)).clone()
    } else if !keys.is_empty() && r.chance(1, 3) {
        let k = (*r.pick(&keys)).clone();
        gen::case_variant(r, &k)
    } else {
        let _ = cfg;
        r.pick(KEYS).to_string()
    }
}

fn some_index(r: &mut Rng, v: &MVal) -> i32 {
    let n = match v {
        MVal::Arr(xs) => xs.len() as i64,
        _ => 1,
    };
    r.range(-n - 1, n + 1) as i32
}

fn gen_keypath(r: &mut Rng, v: &MVal) -> Vec<KP> {
    let mut path = vec![];
    let mut cur = v;
    // usually short; on a deep narrow document one path in four follows it most of the way down
    let depth = if v.depth() > 10 && r.chance(1, 4) { r.urange(v.depth() / 2, v.depth() + 1) } else { r.urange(0, 4) };
    for _ in 0..depth {
        match cur {
            MVal::Arr(xs) if !xs.is_empty() => {
                let i = r.idx(xs.len());
                let shown = if r.chance(1, 3) { i as i32 - xs.len() as i32 } else { i as i32 };
                path.push(KP::Idx(shown));
                cur = &xs[i];
            }
            MVal::Obj(m) if !m.is_empty() => {
                let keys: Vec<&String> = m.keys().collect();
                let k = (*r.pick(&keys)).clone();
                cur = &m[&k];
                path.push(if r.chance(1, 2) { KP::Name(k) } else { KP::QName(k) });
            }
            _ => break,
        }
    }
    // optionally overshoot by one element, step into a scalar, or use the wrong kind of element
    match r.below(10) {
        0 => path.push(KP::Idx(some_index(r, cur))),
        1 => path.push(KP::Name(r.pick(KEYS).to_string())),
        2 => {
            let n = match cur {
                MVal::Arr(xs) => xs.len() as i32,
                _ => 0,
            };
            path.push(KP::Idx(*r.pick(&[n, -n - 1, n + 1, -n])));
        }
        _ => {}
    }
    path
}

fn scalars_of(v: &MVal) -> Vec<MVal> {
    let mut out = vec![];
    v.scalars(&mut out);
    out.into_iter().cloned().collect()
}

fn gen_lit(r: &mut Rng, near: &MVal, cfg: &GenCfg) -> MVal {
    let pool = scalars_of(near);
    if !pool.is_empty() && r.chance(3, 4) {
        r.pick(&pool).clone()
    } else {
        gen::gen_scalar(r, cfg)
    }
}

fn gen_index_spec(r: &mut Rng, n: usize) -> AIdx {
    let n = n as i64;
    let one = |r: &mut Rng| -> MIdx {
        if r.chance(1, 2) {
            MIdx::Idx(r.range(-1, n + 1) as i32)
        } else {
            MIdx::Last(r.range(-n - 1, 2) as i32)
        }
    };
    if r.chance(1, 3) {
        AIdx::Slice(one(r), one(r))
    } else {
        AIdx::One(one(r))
    }
}

fn simple_steps(r: &mut Rng, start: &MVal, max: usize) -> Vec<Step> {
    let mut steps = vec![];
    let mut cur = start;
    for _ in 0..r.urange(0, max) {
        match cur {
            MVal::Obj(m) if !m.is_empty() && r.chance(4, 5) => {
                let keys: Vec<&String> = m.keys().collect();
                let k = (*r.pick(&keys)).clone();
                cur = &m[&k];
                steps.push(Step::Field(r.below(3) as u8, k));
            }
            MVal::Arr(xs) if !xs.is_empty() && r.chance(4, 5) => {
                if r.chance(1, 2) {
                    steps.push(Step::BrWild);
                    cur = &xs[0];
                } else {
                    let i = r.idx(xs.len());
                    steps.push(Step::Indices(vec![AIdx::One(MIdx::Idx(i as i32))]));
                    cur = &xs[i];
                }
            }
            _ => {
                steps.push(match r.below(3) {
                    0 => Step::Field(r.below(3) as u8, r.pick(KEYS).to_string()),
                    1 => Step::BrWild,
                    _ => Step::DotWild,
                });
                break;
            }
        }
    }
    steps
}

fn gen_expr(r: &mut Rng, item: &MVal, root: &MVal, cfg: &GenCfg, depth: usize, allow_current: bool) -> MExpr {
    if depth < 2 && r.chance(1, 4) {
        let a = gen_expr(r, item, root, cfg, depth + 1, allow_current);
        let b = gen_expr(r, item, root, cfg, depth + 1, allow_current);
        return if r.chance(1, 2) { MExpr::And(Box::new(a), Box::new(b)) } else { MExpr::Or(Box::new(a), Box::new(b)) };
    }
    let from_cur = allow_current && r.chance(4, 5);
    let base = if from_cur { item } else { root };
    let steps = simple_steps(r, base, 2);
    if r.chance(1, 4) {
        // exists() evaluates a full path, which may itself end in a filter
        let mut steps = steps;
        if depth < 2 && r.chance(1, 4) {
            let p = MPath { steps: steps.clone(), predicate: None, rootless: false };
            let reached = model::select(base, &p, 0);
            let inner_item = reached.first().cloned().unwrap_or(MVal::Null);
            steps.push(Step::Filter(gen_expr(r, &inner_item, root, cfg, depth + 1, true)));
        }
        return MExpr::Exists(from_cur, steps);
    }
    // literal: prefer a scalar actually reachable so that the comparison can succeed
    let reached: Vec<MVal> = {
        let p = MPath { steps: steps.clone(), predicate: None, rootless: false };
        model::select(base, &p, 0).into_iter().filter(|v| v.is_scalar()).collect()
    };
    // one literal in four, where numbers are compared, is a number of the profile's boundary pools instead: another
    // integer kind, another sign, the neighbour of a limit
    let lit = if reached.iter().any(|v| v.is_number()) && r.chance(1, 4) {
        gen::gen_number(r, cfg)
    } else if !reached.is_empty() && r.chance(2, 3) {
        r.pick(&reached).clone()
    } else {
        gen_lit(r, base, cfg)
    };
    let path = Operand::Path(from_cur, steps);
    // one comparison in six has a path on BOTH sides (any value of the left against any value of the right)
    if r.chance(1, 6) {
        let other_from_cur = allow_current && r.chance(1, 2);
        let other_base = if other_from_cur { item } else { root };
        let other = Operand::Path(other_from_cur, simple_steps(r, other_base, 2));
        return if r.chance(1, 2) {
            MExpr::Eq(path, other)
        } else {
            MExpr::Cmp(r.pick(&["!=", "<", "<=", ">", ">="]).to_string(), path, other)
        };
    }
    // rarely a literal on both sides (a constant condition)
    if r.chance(1, 25) {
        let other = gen_lit(r, base, cfg);
        return if r.chance(1, 2) {
            MExpr::Eq(Operand::Lit(lit), Operand::Lit(other))
        } else {
            MExpr::Cmp(r.pick(&["!=", "<", "<=", ">", ">="]).to_string(), Operand::Lit(lit), Operand::Lit(other))
        };
    }
    let literal_first = r.chance(1, 5);
    if r.chance(1, 3) {
        let op = r.pick(&["!=", "<", "<=", ">", ">="]).to_string();
        if literal_first {
            MExpr::Cmp(op, Operand::Lit(lit), path)
        } else {
            MExpr::Cmp(op, path, Operand::Lit(lit))
        }
    } else if literal_first {
        MExpr::Eq(Operand::Lit(lit), path)
    } else {
        MExpr::Eq(path, Operand::Lit(lit))
    }
}

pub fn gen_path(r: &mut Rng, doc: &MVal, cfg: &GenCfg, filters: bool) -> MPath {
    // a filter is evaluated once per item and may walk from the root each time: quadratic on wide documents,
    // for the library and the model alike; keep filters to documents where that is cheap
    let filters = filters && doc.node_count() <= 2000;
    if filters && r.chance(1, 12) {
        return MPath { steps: vec![], predicate: Some(gen_expr(r, doc, doc, cfg, 0, false)), rootless: false };
    }
    // an array of two or more numbers (bare, or the value of a key of the root): one path in three compares every
    // element with a number -- another element or a number of the boundary pools -- in either operand order, so that
    // numbers of different kinds and signs actually meet in a comparison
    if filters {
        let (prefix, xs): (Vec<Step>, Option<&Vec<MVal>>) = match doc {
            MVal::Arr(xs) => (vec![], Some(xs)),
            MVal::Obj(m) => match m.iter().find(|(_, v)| matches!(v, MVal::Arr(xs) if xs.iter().filter(|x| x.is_number()).count() >= 2)) {
                Some((k, MVal::Arr(xs))) => (vec![Step::Field(r.below(3) as u8, k.clone())], Some(xs)),
                _ => (vec![], None),
            },
            _ => (vec![], None),
        };
        if let Some(xs) = xs {
            let nums: Vec<&MVal> = xs.iter().filter(|x| x.is_number()).collect();
            if nums.len() >= 2 && r.chance(1, 3) {
                let lit = if r.chance(1, 2) { (*r.pick(&nums)).clone() } else { gen::gen_number(r, cfg) };
                let cur = Operand::Path(true, vec![]);
                let (l, rr) = if r.chance(1, 4) { (Operand::Lit(lit), cur) } else { (cur, Operand::Lit(lit)) };
                let e = if r.chance(1, 6) { MExpr::Eq(l, rr) } else { MExpr::Cmp(r.pick(&["!=", "<", "<=", ">", ">="]).to_string(), l, rr) };
                let mut steps = prefix;
                steps.push(Step::BrWild);
                steps.push(Step::Filter(e));
                return MPath { steps, predicate: None, rootless: false };
            }
        }
    }
    let mut steps: Vec<Step> = vec![];
    // deep documents get paths that can follow them down
    let nsteps = if doc.depth() > 8 && r.chance(1, 2) { r.urange(4, 14) } else { r.urange(0, 4) };
    for _ in 0..nsteps {
        // representative item: the first item selected so far
        let sofar = MPath { steps: steps.clone(), predicate: None, rootless: false };
        let items = model::select(doc, &sofar, 0);
        let rep = items.first().cloned().unwrap_or(MVal::Null);
        let step = match &rep {
            _ if filters && r.chance(1, 5) => Step::Filter(gen_expr(r, &rep, doc, cfg, 0, true)),
            MVal::Obj(m) => match r.below(10) {
                0..=5 => {
                    let keys: Vec<&String> = m.keys().collect();
                    let k = if !keys.is_empty() && r.chance(5, 6) { (*r.pick(&keys)).clone() } else { r.pick(KEYS).to_string() };
                    Step::Field(r.below(3) as u8, k)
                }
                6..=7 => Step::DotWild,
                8 => Step::BrWild,
                _ => Step::Indices(vec![gen_index_spec(r, 1)]),
            },
            MVal::Arr(xs) => match r.below(10) {
                0..=3 => Step::BrWild,
                4..=8 => {
                    let k = r.urange(1, 3);
                    Step::Indices((0..k).map(|_| gen_index_spec(r, xs.len())).collect())
                }
                _ => Step::Field(r.below(3) as u8, r.pick(KEYS).to_string()),
            },
            _ => match r.below(4) {
                0 => Step::BrWild,
                1 => Step::DotWild,
                2 => Step::Field(r.below(3) as u8, r.pick(KEYS).to_string()),
                _ => Step::Indices(vec![gen_index_spec(r, 1)]),
            },
        };
        steps.push(step);
    }
    // one path in eight is handed over the way the parser builds `a.b` / `[0].a`: without the leading `$` element
    let rootless = r.chance(1, 8);
    MPath { steps, predicate: None, rootless }
}

pub struct OpGenCfg<'a> {
    pub kinds: &'a [&'static str],
    pub vals: &'a GenCfg,
    /// filters/predicates allowed (the value profile guarantees exact int/float comparison)
    pub filters: bool,
    /// probability (out of 100) that a call is constructed to fail for a documented reason
    pub fail_pct: u64,
}

/// One operation of kind `kind` on the registers `regs`.
pub fn gen_op(r: &mut Rng, kind: &str, regs: &[MVal], cfg: &OpGenCfg) -> Op {
    let n = regs.len();
    let any = |r: &mut Rng| r.idx(n);
    let fail = r.chance(cfg.fail_pct, 100);
    match kind {
        "concat" => Op::Concat { l: any(r), r: any(r) },
        "delete_by_name" => {
            let v = if fail { pick_reg(r, regs, |v| v.is_scalar()) } else { pick_reg(r, regs, |v| !v.is_scalar()) };
            let name = match &regs[v] {
                MVal::Arr(xs) => {
                    let strs: Vec<&String> = xs.iter().filter_map(|x| if let MVal::Str(s) = x { Some(s) } else { None }).collect();
                    if !strs.is_empty() && r.chance(3, 4) {
                        (*r.pick(&strs)).clone()
                    } else {
                        r.pick(gen::STRINGS).to_string()
                    }
                }
                other => some_key(r, other, cfg.vals),
            };
            Op::DeleteByName { v, name }
        }
        "delete_by_index" => {
            let v = if fail { pick_reg(r, regs, |v| !is_arr(v)) } else { pick_reg(r, regs, is_arr) };
            Op::DeleteByIndex { v, idx: some_index(r, &regs[v]) }
        }
        "delete_by_keypath" => {
            let v = if fail { pick_reg(r, regs, |v| v.is_scalar()) } else { pick_reg(r, regs, |v| !v.is_scalar()) };
            Op::DeleteByKeypath { v, path: gen_keypath(r, &regs[v]) }
        }
        "array_insert" => {
            let v = pick_reg(r, regs, is_arr);
            Op::ArrayInsert { v, pos: some_index(r, &regs[v]), new: any(r) }
        }
        "object_insert" => {
            let v = if fail && r.chance(1, 2) { pick_reg(r, regs, |v| !is_obj(v)) } else { pick_reg(r, regs, is_obj) };
            let mut key = some_key(r, &regs[v], cfg.vals);
            let mut update = r.chance(1, 2);
            if fail {
                if let MVal::Obj(m) = &regs[v] {
                    if let Some(k) = m.keys().next() {
                        key = k.clone();
                        update = false;
                    }
                }
            }
            Op::ObjectInsert { v, key, new: any(r), update }
        }
        "object_delete" | "object_pick" => {
            let v = if fail { pick_reg(r, regs, |v| !is_obj(v)) } else { pick_reg(r, regs, is_obj) };
            let mut keys: Vec<String> = (0..r.urange(0, 3)).map(|_| some_key(r, &regs[v], cfg.vals)).collect();
            if r.chance(1, 25) {
                // a long key list: every key of the document and as many that are not there
                if let MVal::Obj(m) = &regs[v] {
                    keys.extend(m.keys().take(300).cloned());
                }
                keys.extend((0..*r.pick(&[16usize, 17, 64, 255, 256, 257])).map(|i| format!("k{i:03}")));
            }
            keys.sort();
            keys.dedup();
            if kind == "object_delete" {
                Op::ObjectDelete { v, keys }
            } else {
                Op::ObjectPick { v, keys }
            }
        }
        "strip_nulls" => Op::StripNulls { v: any(r) },
        "build_array" => {
            let mut items: Vec<usize> = (0..r.urange(0, 4)).map(|_| any(r)).collect();
            // a wide call now and then (small registers only, so that the result stays small)
            let small: Vec<usize> = (0..n).filter(|i| regs[*i].node_count() <= 50 && regs[*i].approx_bytes() <= 4096).collect();
            if !small.is_empty() && r.chance(1, 25) {
                let w = *r.pick(&[16usize, 17, 64, 255, 256, 257, 300]);
                items = (0..w).map(|_| *r.pick(&small)).collect();
            }
            Op::BuildArray { items }
        }
        "build_object" => {
            let mut keys: Vec<String> = (0..r.urange(0, 4)).map(|_| gen::gen_key(r, cfg.vals)).collect();
            let small: Vec<usize> = (0..n).filter(|i| regs[*i].node_count() <= 50 && regs[*i].approx_bytes() <= 4096).collect();
            let wide = !small.is_empty() && r.chance(1, 25);
            if wide {
                keys.extend((0..*r.pick(&[16usize, 17, 64, 255, 256, 257, 300])).map(|i| format!("k{i:03}")));
            }
            keys.sort();
            keys.dedup();
            Op::BuildObject { items: keys.into_iter().map(|k| (k, if wide { *r.pick(&small) } else { r.idx(n) })).collect() }
        }
        "array_distinct" => Op::ArrayDistinct { v: pick_reg(r, regs, is_arr) },
        "array_intersection" => Op::ArrayIntersection { a: pick_reg(r, regs, is_arr), b: pick_reg(r, regs, is_arr) },
        "array_except" => Op::ArrayExcept { a: pick_reg(r, regs, is_arr), b: pick_reg(r, regs, is_arr) },
        "get_by_index" => {
            let v = pick_reg(r, regs, is_arr);
            let len = match &regs[v] {
                MVal::Arr(xs) => xs.len(),
                _ => 1,
            };
            Op::GetByIndex { v, idx: r.urange(0, len + 1) }
        }
        "get_by_name" => {
            let v = pick_reg(r, regs, is_obj);
            Op::GetByName { v, name: some_key(r, &regs[v], cfg.vals), ignore_case: r.chance(1, 2) }
        }
        "get_by_keypath" => {
            let v = pick_reg(r, regs, |v| !v.is_scalar());
            Op::GetByKeypath { v, path: gen_keypath(r, &regs[v]) }
        }
        "array_values" => Op::ArrayValues { v: pick_reg(r, regs, is_arr) },
        "object_each" => Op::ObjectEach { v: pick_reg(r, regs, is_obj) },
        "object_keys" => Op::ObjectKeys { v: pick_reg(r, regs, is_obj) },
        "select" => {
            let v = if r.chance(1, 6) { any(r) } else { pick_reg(r, regs, |v| !v.is_scalar()) };
            let path = gen_path(r, &regs[v], cfg.vals, cfg.filters);
            Op::Select { v, path, api: *r.pick(SelApi::ALL) }
        }
        "write_to_vec" => Op::WriteToVec { v: any(r) },
        "lazy_write" => Op::LazyWrite { v: any(r), raw: r.chance(1, 2) },
        "convert_to_comparable" => Op::ConvertToComparable { v: any(r) },
        "number_compact_encode" => Op::NumberEncode { v: pick_reg(r, regs, |v| v.is_number()) },
        k => unreachable!("unknown op kind {k}"),
    }
}

/// Per-run value profile: filters are only generated when int/float comparison is exact.
pub fn value_profile(r: &mut Rng) -> (GenCfg, bool) {
    let nums = *r.pick(&[NumProfile::All, NumProfile::NoBigInt, NumProfile::NoBigInt, NumProfile::NoFloat]);
    let cfg = GenCfg {
        max_depth: r.urange(1, 5),
        max_width: r.urange(1, 6),
        nums,
        long: r.chance(1, 8),
        // NaN and the infinities are totally ordered by the library (NaN equal to itself and greatest), so they
        // may meet filters as long as no integer beyond 2^53 is around
        nonfinite: nums != NumProfile::NoFloat && r.chance(1, 4),
        container_pct: *r.pick(&[30u64, 45, 60]),
    };
    (cfg, nums != NumProfile::All)
}
