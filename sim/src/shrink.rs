//! Shrinking helpers shared by the scenarios.

use crate::mval::MVal;

/// Strictly simpler trees, most aggressive first.
pub fn shrink_tree(v: &MVal) -> Vec<MVal> {
    // Candidate lists are materialised, so their total size must stay linear in the tree: for wide
    // containers only a bounded number of positions is tried per round (halving does the bulk of the work).
    const POS: usize = 24;
    fn positions(n: usize) -> Vec<usize> {
        if n <= POS {
            (0..n).collect()
        } else {
            let mut p: Vec<usize> = (0..POS / 2).collect();
            p.extend(n - POS / 2..n);
            p
        }
    }
    let mut out = vec![];
    match v {
        MVal::Arr(xs) => {
            // hoist a child
            for i in positions(xs.len()) {
                out.push(xs[i].clone());
            }
            if !xs.is_empty() {
                out.push(MVal::Arr(vec![]));
            }
            // drop halves and quarters, then single children
            if xs.len() > 2 {
                let n = xs.len();
                out.push(MVal::Arr(xs[..n / 2].to_vec()));
                out.push(MVal::Arr(xs[n / 2..].to_vec()));
                if n > 8 {
                    out.push(MVal::Arr(xs[..n / 4].to_vec()));
                    out.push(MVal::Arr(xs[n - n / 4..].to_vec()));
                    out.push(MVal::Arr(xs[n / 4..n - n / 4].to_vec()));
                }
            }
            if xs.len() <= 4096 {
                for i in positions(xs.len()) {
                    let mut ys = xs.clone();
                    ys.remove(i);
                    out.push(MVal::Arr(ys));
                }
                for i in positions(xs.len()) {
                    for c in shrink_tree(&xs[i]).into_iter().take(POS) {
                        let mut ys = xs.clone();
                        ys[i] = c;
                        out.push(MVal::Arr(ys));
                    }
                }
            }
        }
        MVal::Obj(m) => {
            let keys: Vec<&String> = m.keys().collect();
            let pos = positions(keys.len());
            for i in &pos {
                out.push(m[keys[*i]].clone());
            }
            if !m.is_empty() {
                out.push(MVal::Obj(Default::default()));
            }
            if keys.len() > 2 {
                let n = keys.len();
                out.push(MVal::Obj(m.iter().take(n / 2).map(|(k, v)| (k.clone(), v.clone())).collect()));
                out.push(MVal::Obj(m.iter().skip(n / 2).map(|(k, v)| (k.clone(), v.clone())).collect()));
            }
            if keys.len() <= 4096 {
                for i in &pos {
                    let mut n = m.clone();
                    n.remove(keys[*i]);
                    out.push(MVal::Obj(n));
                }
                for i in &pos {
                    let (k, x) = (keys[*i], &m[keys[*i]]);
                    for c in shrink_tree(x).into_iter().take(POS) {
                        let mut n = m.clone();
                        n.insert(k.clone(), c);
                        out.push(MVal::Obj(n));
                    }
                    // simpler key
                    for nk in shrink_string(k).into_iter().take(4) {
                        if !m.contains_key(&nk) {
                            let mut n = m.clone();
                            let val = n.remove(k).unwrap();
                            n.insert(nk, val);
                            out.push(MVal::Obj(n));
                        }
                    }
                }
            }
        }
        MVal::Str(s) => {
            for t in shrink_string(s) {
                out.push(MVal::Str(t));
            }
        }
        MVal::I64(n) => {
            for c in [0i64, 1, -1, n / 2] {
                if c != *n && c.unsigned_abs() < n.unsigned_abs() {
                    out.push(MVal::I64(c).norm());
                }
            }
        }
        MVal::U64(n) => {
            for c in [0u64, 1, n / 2] {
                if c < *n {
                    out.push(MVal::U64(c));
                }
            }
        }
        MVal::F64(b) => {
            let f = f64::from_bits(*b);
            for c in [0.0f64, 1.0, 0.5] {
                if c.to_bits() != *b && !(f.abs() <= c.abs()) {
                    out.push(MVal::f(c));
                }
            }
        }
        MVal::Bool(true) => out.push(MVal::Bool(false)),
        MVal::Bool(false) => out.push(MVal::Null),
        MVal::Null => {}
    }
    out
}

pub fn shrink_string(s: &str) -> Vec<String> {
    let mut out = vec![];
    if s.is_empty() {
        return out;
    }
    out.push(String::new());
    if s.len() > 4096 {
        // huge payloads: halve on a character boundary, nothing finer
        let mut cut = s.len() / 2;
        while !s.is_char_boundary(cut) {
            cut += 1;
        }
        out.push(s[..cut].to_string());
        out.push(s[cut..].to_string());
        return out;
    }
    let chars: Vec<char> = s.chars().collect();
    if chars.len() > 1 {
        out.push(chars[..chars.len() / 2].iter().collect());
        out.push(chars[chars.len() / 2..].iter().collect());
        for i in 0..chars.len().min(8) {
            let mut c = chars.clone();
            c.remove(i);
            out.push(c.into_iter().collect());
        }
    }
    if chars.iter().any(|c| *c != 'a') {
        out.push(chars.iter().map(|_| 'a').collect());
    }
    out
}

/// ddmin-style candidates for a byte string: drop chunks, then zero bytes.
pub fn shrink_bytes(b: &[u8]) -> Vec<Vec<u8>> {
    let mut out = vec![];
    let n = b.len();
    if n == 0 {
        return out;
    }
    let mut chunk = n / 2;
    while chunk >= 1 {
        let mut start = 0;
        while start < n {
            let end = (start + chunk).min(n);
            let mut c = Vec::with_capacity(n - (end - start));
            c.extend_from_slice(&b[..start]);
            c.extend_from_slice(&b[end..]);
            out.push(c);
            start += chunk;
        }
        if chunk == 1 {
            break;
        }
        chunk /= 2;
    }
    for i in 0..n {
        if b[i] != 0 {
            let mut c = b.to_vec();
            c[i] = 0;
            out.push(c);
        }
    }
    out
}
