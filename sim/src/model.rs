//! Tree semantics of every operation the `chain` scenario drives (DESIGN.md Appendix A).
//! Works on `MVal` only; shares no code with /repo.

use crate::mval::MVal;
use crate::ops::{AIdx, KP, MExpr, MIdx, MPath, Op, Operand, Step};
use std::collections::BTreeMap;

#[derive(Debug, Clone, PartialEq)]
pub enum ModelOut {
    /// buffer-writing function: the documents it appends (one, or several for path selection), or the documented error
    Wrote(Result<Vec<MVal>, &'static str>),
    /// value-returning function
    Returned(Option<Vec<MVal>>),
}

fn list(v: &MVal) -> Vec<MVal> {
    match v {
        MVal::Arr(xs) => xs.clone(),
        other => vec![other.clone()],
    }
}

/// `i` if non-negative, else `n + i`; i64 so that nothing can overflow in the model.
fn jdx(i: i32, n: usize) -> i64 {
    if i >= 0 {
        i as i64
    } else {
        n as i64 + i as i64
    }
}

pub fn concat(l: &MVal, r: &MVal) -> MVal {
    match (l, r) {
        (MVal::Obj(a), MVal::Obj(b)) => {
            let mut m = a.clone();
            for (k, v) in b {
                m.insert(k.clone(), v.clone());
            }
            MVal::Obj(m)
        }
        (MVal::Arr(a), MVal::Arr(b)) => MVal::Arr(a.iter().chain(b.iter()).cloned().collect()),
        (x, MVal::Arr(b)) => MVal::Arr(std::iter::once(x).chain(b.iter()).cloned().collect()),
        (MVal::Arr(a), y) => MVal::Arr(a.iter().chain(std::iter::once(y)).cloned().collect()),
        (x, y) => MVal::Arr(vec![x.clone(), y.clone()]),
    }
}

/// Walk for deletion. Returns the edited tree, or None when the path does not resolve
/// (the document is then left unchanged).
fn delete_at(v: &MVal, path: &[KP]) -> Option<MVal> {
    let (head, rest) = path.split_first()?;
    match (v, head) {
        (MVal::Arr(xs), KP::Idx(i)) => {
            let j = jdx(*i, xs.len());
            if j < 0 || j >= xs.len() as i64 {
                return None;
            }
            let j = j as usize;
            let mut ys = xs.clone();
            if rest.is_empty() {
                ys.remove(j);
            } else {
                if xs[j].is_scalar() {
                    return None;
                }
                ys[j] = delete_at(&xs[j], rest)?;
            }
            Some(MVal::Arr(ys))
        }
        (MVal::Obj(m), KP::Name(k) | KP::QName(k)) => {
            let mut n = m.clone();
            match m.get(k) {
                // a missing member: nothing to remove, the object is rebuilt unchanged
                None => Some(MVal::Obj(n)),
                Some(child) => {
                    if rest.is_empty() {
                        n.remove(k);
                    } else {
                        if child.is_scalar() {
                            return None;
                        }
                        n.insert(k.clone(), delete_at(child, rest)?);
                    }
                    Some(MVal::Obj(n))
                }
            }
        }
        _ => None,
    }
}

pub fn delete_by_keypath(v: &MVal, path: &[KP]) -> Result<MVal, &'static str> {
    if v.is_scalar() {
        return Err("InvalidJsonType");
    }
    Ok(delete_at(v, path).unwrap_or_else(|| v.clone()))
}

pub fn get_by_keypath(v: &MVal, path: &[KP]) -> Option<MVal> {
    let mut cur = v;
    for p in path {
        cur = match (cur, p) {
            (MVal::Arr(xs), KP::Idx(i)) => {
                let n = xs.len() as i64;
                let i = *i as i64;
                if i > n || n + i < 0 {
                    return None;
                }
                let j = if i >= 0 { i } else { n + i };
                xs.get(j as usize)?
            }
            (MVal::Obj(m), KP::Name(k) | KP::QName(k)) => m.get(k)?,
            _ => return None,
        };
    }
    Some(cur.clone())
}

pub fn strip_nulls(v: &MVal) -> MVal {
    match v {
        MVal::Arr(xs) => MVal::Arr(xs.iter().map(strip_nulls).collect()),
        MVal::Obj(m) => MVal::Obj(
            m.iter()
                .filter(|(_, x)| **x != MVal::Null)
                .map(|(k, x)| (k.clone(), strip_nulls(x)))
                .collect(),
        ),
        s => s.clone(),
    }
}

fn multiset(xs: &[MVal]) -> BTreeMap<MVal, usize> {
    let mut m = BTreeMap::new();
    for x in xs {
        *m.entry(x.clone()).or_insert(0) += 1;
    }
    m
}

pub fn array_distinct(v: &MVal) -> MVal {
    let mut seen = std::collections::BTreeSet::new();
    let mut out: Vec<MVal> = vec![];
    for x in list(v) {
        if seen.insert(x.clone()) {
            out.push(x);
        }
    }
    MVal::Arr(out)
}

pub fn array_intersection(a: &MVal, b: &MVal) -> MVal {
    let mut cnt = multiset(&list(b));
    let mut out = vec![];
    for x in list(a) {
        if let Some(c) = cnt.get_mut(&x) {
            if *c > 0 {
                *c -= 1;
                out.push(x);
            }
        }
    }
    MVal::Arr(out)
}

pub fn array_except(a: &MVal, b: &MVal) -> MVal {
    let mut cnt = multiset(&list(b));
    let mut out = vec![];
    for x in list(a) {
        if let Some(c) = cnt.get_mut(&x) {
            if *c > 0 {
                *c -= 1;
                continue;
            }
        }
        out.push(x);
    }
    MVal::Arr(out)
}

// ---------------------------------------------------------------------------
// path selection
// ---------------------------------------------------------------------------

fn resolve_idx(i: &MIdx, n: usize) -> i64 {
    match i {
        MIdx::Idx(v) => *v as i64,
        MIdx::Last(k) => n as i64 - 1 + *k as i64,
    }
}

fn apply_step<'a>(items: Vec<&'a MVal>, step: &Step, root: &'a MVal) -> Vec<&'a MVal> {
    let mut out = vec![];
    match step {
        Step::Field(_, name) => {
            for it in items {
                if let MVal::Obj(m) = it {
                    if let Some(v) = m.get(name) {
                        out.push(v);
                    }
                }
            }
        }
        Step::DotWild => {
            for it in items {
                if let MVal::Obj(m) = it {
                    out.extend(m.values());
                }
            }
        }
        Step::BrWild => {
            for it in items {
                match it {
                    MVal::Arr(xs) => out.extend(xs.iter()),
                    other => out.push(other),
                }
            }
        }
        Step::Indices(specs) => {
            for it in items {
                if let MVal::Arr(xs) = it {
                    let n = xs.len();
                    if n == 0 {
                        continue;
                    }
                    for s in specs {
                        match s {
                            AIdx::One(i) => {
                                let j = resolve_idx(i, n);
                                if j >= 0 && j < n as i64 {
                                    out.push(&xs[j as usize]);
                                }
                            }
                            AIdx::Slice(a, b) => {
                                let (a, b) = (resolve_idx(a, n), resolve_idx(b, n));
                                if a > b || a >= n as i64 || b < 0 {
                                    continue;
                                }
                                let lo = a.max(0) as usize;
                                let hi = b.min(n as i64 - 1) as usize;
                                out.extend(xs[lo..=hi].iter());
                            }
                        }
                    }
                }
            }
        }
        Step::Filter(e) => {
            for it in items {
                if eval_expr(e, it, root) {
                    out.push(it);
                }
            }
        }
    }
    out
}

fn walk<'a>(start: &'a MVal, steps: &[Step], root: &'a MVal) -> Vec<&'a MVal> {
    let mut items = vec![start];
    for s in steps {
        items = apply_step(items, s, root);
    }
    items
}

/// Numbers compare by value, everything else structurally; different kinds are never equal.
pub fn scalar_eq(a: &MVal, b: &MVal) -> bool {
    fn as_int(v: &MVal) -> Option<i128> {
        match v {
            MVal::I64(n) => Some(*n as i128),
            MVal::U64(n) => Some(*n as i128),
            _ => None,
        }
    }
    fn as_f(v: &MVal) -> Option<f64> {
        match v {
            MVal::I64(n) => Some(*n as f64),
            MVal::U64(n) => Some(*n as f64),
            MVal::F64(b) => Some(f64::from_bits(*b)),
            _ => None,
        }
    }
    if a.is_number() && b.is_number() {
        if let (Some(x), Some(y)) = (as_int(a), as_int(b)) {
            return x == y;
        }
        let (x, y) = (as_f(a).unwrap(), as_f(b).unwrap());
        return (x.is_nan() && y.is_nan()) || x == y;
    }
    a.is_scalar() && a == b
}

/// Order of two scalars in a filter. Same kind: null = null, false < true, numbers by value, strings bytewise.
/// Different kinds: the README does not say; the model pins what the evaluator does today
/// (null < boolean < number < string), so that this detects change, not original sin.
pub fn scalar_order(a: &MVal, b: &MVal) -> std::cmp::Ordering {
    use std::cmp::Ordering::*;
    fn rank(v: &MVal) -> u8 {
        match v {
            MVal::Null => 0,
            MVal::Bool(_) => 1,
            MVal::I64(_) | MVal::U64(_) | MVal::F64(_) => 2,
            _ => 3,
        }
    }
    fn num(v: &MVal) -> (Option<i128>, f64) {
        match v {
            MVal::I64(n) => (Some(*n as i128), *n as f64),
            MVal::U64(n) => (Some(*n as i128), *n as f64),
            MVal::F64(b) => (None, f64::from_bits(*b)),
            _ => (None, 0.0),
        }
    }
    match (a, b) {
        (MVal::Bool(x), MVal::Bool(y)) => x.cmp(y),
        (MVal::Str(x), MVal::Str(y)) => x.as_bytes().cmp(y.as_bytes()),
        _ if a.is_number() && b.is_number() => {
            let ((ia, fa), (ib, fb)) = (num(a), num(b));
            match (ia, ib) {
                (Some(x), Some(y)) => x.cmp(&y),
                // filters are only generated under number profiles where this conversion is exact;
                // NaN is equal to itself and greater than every other number
                _ => match (fa.is_nan(), fb.is_nan()) {
                    (true, true) => Equal,
                    (true, false) => Greater,
                    (false, true) => Less,
                    _ => fa.partial_cmp(&fb).unwrap_or(Equal),
                },
            }
        }
        _ => rank(a).cmp(&rank(b)),
    }
}

fn operand_values<'a>(o: &'a Operand, cur: &'a MVal, root: &'a MVal) -> Vec<&'a MVal> {
    match o {
        Operand::Lit(v) => vec![v],
        Operand::Path(from_cur, steps) => walk(if *from_cur { cur } else { root }, steps, root)
            .into_iter()
            .filter(|v| v.is_scalar())
            .collect(),
    }
}

fn eval_expr(e: &MExpr, cur: &MVal, root: &MVal) -> bool {
    match e {
        MExpr::Eq(l, r) => {
            let ls = operand_values(l, cur, root);
            let rs = operand_values(r, cur, root);
            ls.iter().any(|x| rs.iter().any(|y| scalar_eq(x, y)))
        }
        MExpr::Cmp(op, l, r) => {
            use std::cmp::Ordering::*;
            let ls = operand_values(l, cur, root);
            let rs = operand_values(r, cur, root);
            ls.iter().any(|x| {
                rs.iter().any(|y| {
                    let o = scalar_order(x, y);
                    match op.as_str() {
                        "!=" => o != Equal,
                        "<" => o == Less,
                        "<=" => o != Greater,
                        ">" => o == Greater,
                        _ => o != Less,
                    }
                })
            })
        }
        MExpr::Exists(from_cur, steps) => !walk(if *from_cur { cur } else { root }, steps, root).is_empty(),
        MExpr::And(l, r) => eval_expr(l, cur, root) && eval_expr(r, cur, root),
        MExpr::Or(l, r) => eval_expr(l, cur, root) || eval_expr(r, cur, root),
    }
}

/// mode: 0 all, 1 first, 2 array, 3 mixed
pub fn select(v: &MVal, path: &MPath, mode: u8) -> Vec<MVal> {
    if let Some(e) = &path.predicate {
        return vec![MVal::Bool(eval_expr(e, v, v))];
    }
    let items: Vec<MVal> = walk(v, &path.steps, v).into_iter().cloned().collect();
    match mode {
        0 => items,
        1 => items.into_iter().take(1).collect(),
        2 => vec![MVal::Arr(items)],
        _ => {
            if items.len() > 1 {
                vec![MVal::Arr(items)]
            } else {
                items
            }
        }
    }
}

// ---------------------------------------------------------------------------
// the whole operation
// ---------------------------------------------------------------------------

pub fn apply(op: &Op, regs: &[MVal]) -> ModelOut {
    use ModelOut::*;
    let one = |v: MVal| Wrote(Ok(vec![v]));
    match op {
        Op::Concat { l, r } => one(concat(&regs[*l], &regs[*r])),
        Op::DeleteByName { v, name } => match &regs[*v] {
            MVal::Obj(m) => {
                let mut n = m.clone();
                n.remove(name);
                one(MVal::Obj(n))
            }
            MVal::Arr(xs) => one(MVal::Arr(xs.iter().filter(|x| !matches!(x, MVal::Str(s) if s == name)).cloned().collect())),
            _ => Wrote(Err("InvalidJsonType")),
        },
        Op::DeleteByIndex { v, idx } => match &regs[*v] {
            MVal::Arr(xs) => {
                let j = jdx(*idx, xs.len());
                let mut ys = xs.clone();
                if j >= 0 && j < xs.len() as i64 {
                    ys.remove(j as usize);
                }
                one(MVal::Arr(ys))
            }
            _ => Wrote(Err("InvalidJsonType")),
        },
        Op::DeleteByKeypath { v, path } => Wrote(delete_by_keypath(&regs[*v], path).map(|d| vec![d])),
        Op::ArrayInsert { v, pos, new } => {
            let mut l = list(&regs[*v]);
            let n = l.len();
            let at = jdx(*pos, n).clamp(0, n as i64) as usize;
            l.insert(at, regs[*new].clone());
            one(MVal::Arr(l))
        }
        Op::ObjectInsert { v, key, new, update } => match &regs[*v] {
            MVal::Obj(m) => {
                if m.contains_key(key) && !*update {
                    Wrote(Err("ObjectDuplicateKey"))
                } else {
                    let mut n = m.clone();
                    n.insert(key.clone(), regs[*new].clone());
                    one(MVal::Obj(n))
                }
            }
            _ => Wrote(Err("InvalidObject")),
        },
        Op::ObjectDelete { v, keys } => match &regs[*v] {
            MVal::Obj(m) => one(MVal::Obj(m.iter().filter(|(k, _)| !keys.contains(k)).map(|(k, x)| (k.clone(), x.clone())).collect())),
            _ => Wrote(Err("InvalidObject")),
        },
        Op::ObjectPick { v, keys } => match &regs[*v] {
            MVal::Obj(m) => one(MVal::Obj(m.iter().filter(|(k, _)| keys.contains(k)).map(|(k, x)| (k.clone(), x.clone())).collect())),
            _ => Wrote(Err("InvalidObject")),
        },
        Op::StripNulls { v } => one(strip_nulls(&regs[*v])),
        Op::BuildArray { items } => one(MVal::Arr(items.iter().map(|i| regs[*i].clone()).collect())),
        Op::BuildObject { items } => one(MVal::Obj(items.iter().map(|(k, i)| (k.clone(), regs[*i].clone())).collect())),
        Op::ArrayDistinct { v } => one(array_distinct(&regs[*v])),
        Op::ArrayIntersection { a, b } => one(array_intersection(&regs[*a], &regs[*b])),
        Op::ArrayExcept { a, b } => one(array_except(&regs[*a], &regs[*b])),
        Op::GetByIndex { v, idx } => Returned(match &regs[*v] {
            MVal::Arr(xs) => xs.get(*idx).map(|x| vec![x.clone()]),
            _ => None,
        }),
        Op::GetByName { v, name, ignore_case } => Returned(match &regs[*v] {
            MVal::Obj(m) => m
                .get(name)
                .or_else(|| {
                    if *ignore_case {
                        m.iter().find(|(k, _)| k.eq_ignore_ascii_case(name)).map(|(_, x)| x)
                    } else {
                        None
                    }
                })
                .map(|x| vec![x.clone()]),
            _ => None,
        }),
        Op::GetByKeypath { v, path } => Returned(get_by_keypath(&regs[*v], path).map(|x| vec![x])),
        Op::ArrayValues { v } => Returned(match &regs[*v] {
            MVal::Arr(xs) => Some(xs.clone()),
            _ => None,
        }),
        Op::ObjectEach { v } => Returned(match &regs[*v] {
            MVal::Obj(m) => Some(m.iter().flat_map(|(k, x)| [MVal::Str(k.clone()), x.clone()]).collect()),
            _ => None,
        }),
        Op::ObjectKeys { v } => Returned(match &regs[*v] {
            MVal::Obj(m) => Some(vec![MVal::Arr(m.keys().map(|k| MVal::Str(k.clone())).collect())]),
            _ => None,
        }),
        Op::Select { v, path, api } => Wrote(Ok(select(&regs[*v], path, api.mode()))),
        Op::WriteToVec { v } | Op::LazyWrite { v, .. } => one(regs[*v].clone()),
        Op::ConvertToComparable { .. } | Op::NumberEncode { .. } => Wrote(Ok(vec![])),
    }
}
