//! C10 — `corrupt`: a simulated block store hands back damaged encodings; both
//! binary decoders must return a value or an error, never panic, never yield an
//! ill-formed string; proper prefixes are rejected; text rows are decoded as text;
//! and (memory-limited node) no decode asks for an absurd allocation.

use crate::alloc;
use crate::gen::{self, GenCfg, NumProfile};
use crate::harness::{guard, RunOut, Scenario, Stats, Viol};
use crate::mval::{self, Field, FieldKind, MVal, TextStyle};
use crate::rng::{fnv_of, Fnv, Rng};
use crate::shrink;
use serde_json::{json, Value as J};

// ---------------------------------------------------------------------------
// faults: total functions on byte strings
// ---------------------------------------------------------------------------

#[derive(Clone, Debug, PartialEq)]
pub enum ByteOp {
    Truncate(usize),
    Zero(usize, usize),
    /// a window read back as all ones (an erased flash page)
    Ones(usize, usize),
    Flip(usize, u8),
    /// overwrite starting at offset (clipped to the buffer)
    Set(usize, Vec<u8>),
    Insert(usize, Vec<u8>),
    Delete(usize, usize),
    /// replace everything from offset on by the given tail
    Splice(usize, Vec<u8>),
}

#[derive(Clone, Debug, PartialEq)]
pub struct Fault {
    pub kind: String,
    pub op: ByteOp,
}

impl Fault {
    fn new(kind: &str, op: ByteOp) -> Fault {
        Fault { kind: kind.to_string(), op }
    }
    pub fn apply(&self, b: &mut Vec<u8>) {
        match &self.op {
            ByteOp::Truncate(k) => b.truncate(*k),
            ByteOp::Zero(a, e) => {
                let e = (*e).min(b.len());
                for x in b.iter_mut().take(e).skip(*a) {
                    *x = 0;
                }
            }
            ByteOp::Ones(a, e) => {
                let e = (*e).min(b.len());
                for x in b.iter_mut().take(e).skip(*a) {
                    *x = 0xff;
                }
            }
            ByteOp::Flip(off, bit) => {
                if let Some(x) = b.get_mut(*off) {
                    *x ^= 1 << (bit & 7);
                }
            }
            ByteOp::Set(off, v) => {
                for (i, x) in v.iter().enumerate() {
                    if let Some(t) = b.get_mut(off + i) {
                        *t = *x;
                    }
                }
            }
            ByteOp::Insert(off, v) => {
                let off = (*off).min(b.len());
                let tail = b.split_off(off);
                b.extend_from_slice(v);
                b.extend_from_slice(&tail);
            }
            ByteOp::Delete(off, n) => {
                let off = (*off).min(b.len());
                let end = (off + n).min(b.len());
                b.drain(off..end);
            }
            ByteOp::Splice(off, v) => {
                b.truncate(*off);
                b.extend_from_slice(v);
            }
        }
    }
    fn to_json(&self) -> J {
        match &self.op {
            ByteOp::Truncate(k) => json!({"kind": self.kind, "op": "truncate", "at": k}),
            ByteOp::Zero(a, e) => json!({"kind": self.kind, "op": "zero", "from": a, "to": e}),
            ByteOp::Ones(a, e) => json!({"kind": self.kind, "op": "ones", "from": a, "to": e}),
            ByteOp::Flip(o, b) => json!({"kind": self.kind, "op": "flip", "off": o, "bit": b}),
            ByteOp::Set(o, v) => json!({"kind": self.kind, "op": "set", "off": o, "bytes": mval::hex(v)}),
            ByteOp::Insert(o, v) => json!({"kind": self.kind, "op": "insert", "off": o, "bytes": mval::hex(v)}),
            ByteOp::Delete(o, n) => json!({"kind": self.kind, "op": "delete", "off": o, "n": n}),
            ByteOp::Splice(o, v) => json!({"kind": self.kind, "op": "splice", "off": o, "bytes": mval::hex(v)}),
        }
    }
    fn from_json(j: &J) -> Result<Fault, String> {
        let kind = j["kind"].as_str().unwrap_or("?").to_string();
        let u = |k: &str| j[k].as_u64().map(|v| v as usize).ok_or_else(|| format!("fault field {k}"));
        let bytes = || mval::unhex(j["bytes"].as_str().unwrap_or(""));
        let op = match j["op"].as_str().unwrap_or("") {
            "truncate" => ByteOp::Truncate(u("at")?),
            "zero" => ByteOp::Zero(u("from")?, u("to")?),
            "ones" => ByteOp::Ones(u("from")?, u("to")?),
            "flip" => ByteOp::Flip(u("off")?, u("bit")? as u8),
            "set" => ByteOp::Set(u("off")?, bytes()?),
            "insert" => ByteOp::Insert(u("off")?, bytes()?),
            "delete" => ByteOp::Delete(u("off")?, u("n")?),
            "splice" => ByteOp::Splice(u("off")?, bytes()?),
            o => return Err(format!("unknown fault op {o}")),
        };
        Ok(Fault { kind, op })
    }
}

pub const FAULT_KINDS: &[&str] = &[
    "truncate", "zero_fill", "ones_fill", "bit_flip", "byte_set", "insert", "delete", "splice", "header_count", "header_type",
    "entry_type", "entry_len", "key_retype", "number_tag", "number_width", "utf8_poke", "key_dup",
];

const UTF8_POKES: &[&[u8]] = &[
    &[0xff],
    &[0x80],
    &[0xc3],
    &[0xc0, 0xaf],
    &[0xe0, 0x80, 0xaf],
    &[0xed, 0xa0, 0x80],
    &[0xf4, 0x90, 0x80, 0x80],
    &[0xf8],
    &[0xe2, 0x82],
];

// ---------------------------------------------------------------------------
// cases
// ---------------------------------------------------------------------------

#[derive(Clone, Debug)]
pub enum Case {
    /// exhaustive single-fault sweep over one stored document
    Sweep { doc: MVal },
    /// seeded fault sequence applied to the stored encoding of `doc`
    Seq { doc: MVal, faults: Vec<Fault> },
    /// the stored row is cut at `cut` (a proper prefix): both decoders must refuse it
    Prefix { doc: MVal, cut: usize },
    /// a legacy text row where a binary row is expected
    Text { doc: MVal, style: TextStyle },
    /// a legacy text row that was itself damaged: any byte string, so only "value or error, no panic" is required
    TextFault { doc: MVal, style: TextStyle, faults: Vec<Fault> },
    /// any byte string at all
    Raw { bytes: Vec<u8>, origin: String },
}

pub struct Corrupt;

const DECODERS: &[&str] = &["from_slice", "parse_jsonb"];

fn err_name(e: &jsonb::Error) -> String {
    // what a caller does with an error first: print it
    let _ = e.to_string();
    let s = format!("{:?}", e);
    match s.find('(') {
        Some(i) => s[..i].to_string(),
        None => s,
    }
}

thread_local! {
    /// decodes of this thread that ran on a row placed against the guard page (drained into the run's stats)
    static PLACED: std::cell::Cell<u64> = const { std::cell::Cell::new(0) };
}

/// Result of one decode under the oracle. `Ok(outcome label)` or a violation.
fn decode_once(decoder: &str, bytes: &[u8]) -> Result<(String, Option<MVal>), Viol> {
    alloc::reset();
    // the row is decoded where a column store would have it: unaligned, and with nothing readable behind it
    let (r, placed) = crate::placement::with_row(bytes, |bytes| {
        guard(|| match decoder {
            "from_slice" => jsonb::from_slice(bytes).map(|v| mval::from_value(&v)),
            _ => jsonb::parse_jsonb(bytes).map(|v| mval::from_value(&v)),
        })
    });
    PLACED.with(|c| c.set(c.get() + placed as u64));
    // ... and where an ordinary caller has it: at the start of a heap block (aligned start, ragged end, more heap
    // behind it). What a decoder returns may not depend on which of the two it was given.
    if placed {
        let r2 = guard(|| match decoder {
            "from_slice" => jsonb::from_slice(bytes).map(|v| mval::from_value(&v)),
            _ => jsonb::parse_jsonb(bytes).map(|v| mval::from_value(&v)),
        });
        let show = |r: &Result<Result<Result<MVal, String>, jsonb::Error>, crate::harness::PanicInfo>| match r {
            Err(p) => format!("panic at {}", p.loc),
            Ok(Err(e)) => format!("Err({})", err_name(e)),
            Ok(Ok(Err(why))) => format!("Ok with an ill-formed string ({why})"),
            Ok(Ok(Ok(v))) => format!("Ok({})", truncate_str(&mval::to_json(v).to_string(), 100)),
        };
        let same = match (&r, &r2) {
            (Err(a), Err(b)) => a.loc == b.loc,
            (Ok(Err(a)), Ok(Err(b))) => err_name(a) == err_name(b),
            (Ok(Ok(a)), Ok(Ok(b))) => a == b,
            _ => false,
        };
        if !same {
            return Err(Viol {
                class: format!("O6:placement_dependent:{decoder}"),
                detail: format!(
                    "the same {} bytes decode to {} when the row ends at the end of its mapping (start address = -len mod 4096) but to {} at the start of a heap block",
                    bytes.len(), show(&r), show(&r2)
                ),
            });
        }
    }
    let max_req = alloc::max_request();
    let limit = (256usize << 20).max(4096 * bytes.len());
    if max_req > limit {
        return Err(Viol {
            class: format!("O5:alloc:{decoder}"),
            detail: format!(
                "decoding {} bytes requested a single allocation of {} bytes (> {}); on a memory-limited node this aborts the process",
                bytes.len(), max_req, limit
            ),
        });
    }
    match r {
        Err(p) => Err(Viol {
            class: format!("O1:panic:{decoder}:{}", p.loc),
            detail: format!("panic at {}: {}", p.loc, p.msg),
        }),
        Ok(Err(e)) => Ok((format!("err:{}", err_name(&e)), None)),
        Ok(Ok(Err(why))) => Err(Viol {
            class: format!("O2:utf8:{decoder}"),
            detail: format!("decoder returned Ok with an ill-formed string or key: {why}"),
        }),
        Ok(Ok(Ok(v))) => Ok(("ok".to_string(), Some(v))),
    }
}

/// The number decoder is a public entry point of its own (`jsonb::Number::decode`, anchored by C10): it is handed the
/// whole row and every short suffix of it (where the tag/width match decides), on the copy that ends at the
/// inaccessible page. Judged: no panic (O1); a number it returns survives its own encode/decode (O7). A prefix of a
/// document is not a number encoding, so O3 does not apply here.
fn number_direct(bytes: &[u8]) -> Result<u32, Viol> {
    fn judge(slice: &[u8]) -> Result<bool, String> {
        let num = match jsonb::Number::decode(slice) {
            Ok(n) => n,
            Err(_) => return Ok(false),
        };
        let mut again = Vec::with_capacity(9);
        let wrote = num.compact_encode(&mut again);
        let back = jsonb::Number::decode(&again);
        let same = match (&back, &num) {
            (Ok(jsonb::Number::Float64(a)), jsonb::Number::Float64(b)) => a.to_bits() == b.to_bits() || (a.is_nan() && b.is_nan()),
            (Ok(jsonb::Number::Int64(a)), jsonb::Number::Int64(b)) => a == b,
            (Ok(jsonb::Number::UInt64(a)), jsonb::Number::UInt64(b)) => a == b,
            // zero has one encoding for both integer kinds
            (Ok(jsonb::Number::UInt64(0)), jsonb::Number::Int64(0)) => true,
            _ => false,
        };
        if !same || wrote.as_ref().ok() != Some(&again.len()) {
            return Err(format!("Number::decode({:02x?}) = {:?}, which re-encodes to {:02x?} (reported {:?}) and decodes back to {:?}", slice, num, again, wrote.ok(), back.ok()));
        }
        Ok(true)
    }
    let (r, _) = crate::placement::with_row(bytes, |row| {
        guard(|| {
            let mut oks = 0u32;
            let n = row.len();
            for start in std::iter::once(0).chain(n.saturating_sub(12)..=n) {
                oks += judge(&row[start..])? as u32;
            }
            // every number tag (and the row's last byte as a tag) at every width 0..=9 and 16, 17, payload taken from
            // the row: the (tag, width) table of the decoder, enumerated on every row
            let mut synth = [0u8; 18];
            if n > 0 {
                for (i, b) in synth.iter_mut().enumerate().skip(1) {
                    *b = row[(n - 1).wrapping_sub(i) % n];
                }
            }
            for tag in [0x00u8, 0x10, 0x20, 0x30, 0x40, 0x50, 0x60, row.last().copied().unwrap_or(0x70)] {
                synth[0] = tag;
                for len in [0usize, 1, 2, 3, 4, 5, 6, 7, 8, 9, 10, 17, 18] {
                    oks += judge(&synth[..len])? as u32;
                }
            }
            Ok(oks)
        })
    });
    match r {
        Err(p) => Err(Viol { class: format!("O1:panic:Number::decode:{}", p.loc), detail: format!("panic at {}: {}", p.loc, p.msg) }),
        Ok(Err(why)) => Err(Viol { class: "O7:number_unstable:Number::decode".to_string(), detail: why }),
        Ok(Ok(oks)) => Ok(oks),
    }
}

#[derive(Clone, Copy, PartialEq)]
enum Clause {
    Any,
    MustErr,
}

struct Ctx<'a> {
    stats: &'a mut Stats,
    digest: Fnv,
    violations: Vec<(Viol, Option<Case>)>,
}

impl<'a> Ctx<'a> {
    fn push(&mut self, v: Viol, sub: Case) {
        if !self.violations.iter().any(|(x, _)| x.class == v.class) {
            self.violations.push((v, Some(sub)));
        }
    }

    /// Decodes `bytes` with both decoders under clause `cl`; `kinds` label the faults that produced it.
    fn check(&mut self, bytes: &[u8], cl: Clause, kinds: &[&str], sub: impl Fn() -> Case) {
        for d in DECODERS {
            self.stats.steps += 1;
            match decode_once(d, bytes) {
                Ok((label, _)) => {
                    self.digest.str(&label);
                    for k in kinds {
                        let mut key = String::with_capacity(40);
                        key.push_str("outcome/");
                        key.push_str(k);
                        key.push(':');
                        key.push_str(d);
                        key.push(':');
                        key.push_str(&label);
                        self.stats.inc(&key);
                    }
                    if label == "ok" {
                        self.stats.inc("probe/ok_after_corruption");
                    } else {
                        self.stats.inc2("probe", &label);
                    }
                    if cl == Clause::MustErr && label == "ok" {
                        self.push(
                            Viol {
                                class: format!("O3:prefix_accepted:{d}"),
                                detail: format!("{d} returned Ok for a proper prefix ({} bytes) of a valid encoding", bytes.len()),
                            },
                            sub(),
                        );
                    }
                }
                Err(v) => {
                    self.digest.str(&v.class);
                    self.push(v, sub());
                }
            }
        }
        self.stats.steps += 1;
        match number_direct(bytes) {
            Ok(oks) => {
                self.digest.u64(oks as u64);
                self.stats.inc("probe/number_direct_rows");
                self.stats.add("number_direct/decodes_returning_ok", oks as u64);
            }
            Err(v) => {
                self.digest.str(&v.class);
                self.push(v, sub());
            }
        }
    }
}

fn doc_cfg(r: &mut Rng) -> GenCfg {
    GenCfg {
        max_depth: r.urange(1, 5),
        max_width: r.urange(1, 6),
        nums: NumProfile::All,
        long: r.chance(1, 4),
        nonfinite: r.chance(1, 5),
        container_pct: 50,
    }
}

fn entries(layout: &[Field]) -> Vec<&Field> {
    layout.iter().filter(|f| matches!(f.kind, FieldKind::Entry { .. })).collect()
}

/// One layout-aware or blind fault for the sequence driver.
fn gen_fault(r: &mut Rng, kind: &str, pristine: &[u8], layout: &[Field], other: &[u8], near: Option<usize>) -> Fault {
    let n = pristine.len().max(1);
    let off_near = |r: &mut Rng| -> usize {
        match near {
            Some(p) if r.chance(1, 2) => (p as i64 + r.range(-4, 8)).clamp(0, n as i64 - 1) as usize,
            _ => r.idx(n),
        }
    };
    let headers: Vec<&Field> = layout.iter().filter(|f| matches!(f.kind, FieldKind::Header { .. })).collect();
    let ents = entries(layout);
    let nums: Vec<&Field> = layout.iter().filter(|f| f.kind == FieldKind::Number).collect();
    let texts: Vec<&Field> = layout.iter().filter(|f| matches!(f.kind, FieldKind::Text { .. }) && f.len > 0).collect();
    let word = |b: &[u8], off: usize| u32::from_be_bytes([b[off], b[off + 1], b[off + 2], b[off + 3]]);
    match kind {
        "truncate" => Fault::new(kind, ByteOp::Truncate(r.idx(n))),
        "zero_fill" => {
            let a = off_near(r);
            let len = *r.pick(&[1usize, 4, 8, 16, 64, 512]);
            Fault::new(kind, ByteOp::Zero(a, a + len))
        }
        "ones_fill" => {
            let a = off_near(r);
            let len = *r.pick(&[4usize, 8, 16, 64, 128, 512]);
            Fault::new(kind, ByteOp::Ones(a, a + len))
        }
        "bit_flip" => Fault::new(kind, ByteOp::Flip(off_near(r), r.below(8) as u8)),
        "byte_set" => {
            let off = off_near(r);
            let cur = pristine.get(off).copied().unwrap_or(0);
            let v = match r.below(8) {
                0 => 0x00,
                1 => 0x7f,
                2 => 0x80,
                3 => 0xff,
                4 => cur ^ 0x10,
                5 => cur ^ 0x70,
                6 => (cur & 0x0f) | ((r.below(16) as u8) << 4),
                _ => r.below(256) as u8,
            };
            Fault::new(kind, ByteOp::Set(off, vec![v]))
        }
        "insert" => {
            let k = r.urange(1, 4);
            let bytes: Vec<u8> = (0..k).map(|_| *r.pick(&[0x00u8, 0xff, 0x20, 0x80, 0x10, 0x50, 0x40])).collect();
            Fault::new(kind, ByteOp::Insert(off_near(r), bytes))
        }
        "delete" => Fault::new(kind, ByteOp::Delete(off_near(r), r.urange(1, 4))),
        "splice" => {
            let off = off_near(r);
            let from = if other.is_empty() { 0 } else { r.idx(other.len()) };
            Fault::new(kind, ByteOp::Splice(off, other[from..].to_vec()))
        }
        "header_count" if !headers.is_empty() => {
            let h = *r.pick(&headers);
            let w = word(pristine, h.off);
            let c = w & 0x1fff_ffff;
            let nc = match r.below(7) {
                0 => 0,
                1 => c.wrapping_sub(1) & 0x1fff_ffff,
                2 => c + 1,
                3 => c * 2,
                4 => 0x1fff_ffff,
                5 => c + r.below(1000) as u32,
                _ => (r.next_u64() as u32) & 0x1fff_ffff,
            };
            Fault::new(kind, ByteOp::Set(h.off, ((w & 0xe000_0000) | nc).to_be_bytes().to_vec()))
        }
        "header_type" if !headers.is_empty() => {
            let h = *r.pick(&headers);
            let w = word(pristine, h.off);
            let t = (r.below(8) as u32) << 29;
            Fault::new(kind, ByteOp::Set(h.off, ((w & 0x1fff_ffff) | t).to_be_bytes().to_vec()))
        }
        "entry_type" if !ents.is_empty() => {
            let e = *r.pick(&ents);
            let w = word(pristine, e.off);
            let t = (r.below(16) as u32) << 28;
            Fault::new(kind, ByteOp::Set(e.off, ((w & 0x0fff_ffff) | t).to_be_bytes().to_vec()))
        }
        "key_retype" if ents.iter().any(|e| matches!(e.kind, FieldKind::Entry { role: 2, .. })) => {
            let keys: Vec<&&Field> = ents.iter().filter(|e| matches!(e.kind, FieldKind::Entry { role: 2, .. })).collect();
            let e = **r.pick(&keys);
            let w = word(pristine, e.off);
            let t = *r.pick(&[0x0000_0000u32, 0x2000_0000, 0x3000_0000, 0x4000_0000, 0x5000_0000, 0x6000_0000, 0x7000_0000]);
            Fault::new(kind, ByteOp::Set(e.off, ((w & 0x0fff_ffff) | t).to_be_bytes().to_vec()))
        }
        "entry_len" if !ents.is_empty() => {
            let e = *r.pick(&ents);
            let w = word(pristine, e.off);
            let (len, payload) = match e.kind {
                FieldKind::Entry { len, payload, .. } => (len, payload),
                _ => unreachable!(),
            };
            let rest = (pristine.len() - payload) as u32;
            let sib = match r.pick(&ents).kind {
                FieldKind::Entry { len, .. } => len,
                _ => 0,
            };
            let nl = match r.below(8) {
                0 => 0,
                1 => len.wrapping_sub(1) & 0x0fff_ffff,
                2 => len + 1,
                3 => rest,
                4 => rest + 1,
                5 => 0x0fff_ffff,
                6 => sib,
                _ => r.below(64) as u32,
            };
            Fault::new(kind, ByteOp::Set(e.off, ((w & 0xf000_0000) | nl).to_be_bytes().to_vec()))
        }
        "number_tag" if !nums.is_empty() => {
            let f = *r.pick(&nums);
            let cur = pristine[f.off];
            let v = if r.chance(3, 4) { ((r.below(16) as u8) << 4) | (cur & 0x0f) } else { r.below(256) as u8 };
            Fault::new(kind, ByteOp::Set(f.off, vec![v]))
        }
        "number_width" if ents.iter().any(|e| matches!(e.kind, FieldKind::Entry { ty: 0x2000_0000, .. })) => {
            let ns: Vec<&&Field> = ents.iter().filter(|e| matches!(e.kind, FieldKind::Entry { ty: 0x2000_0000, .. })).collect();
            let e = **r.pick(&ns);
            let w = word(pristine, e.off);
            Fault::new(kind, ByteOp::Set(e.off, ((w & 0xf000_0000) | r.below(11) as u32).to_be_bytes().to_vec()))
        }
        "utf8_poke" if !texts.is_empty() => {
            let f = *r.pick(&texts);
            let off = f.off + r.idx(f.len);
            Fault::new(kind, ByteOp::Set(off, r.pick(UTF8_POKES).to_vec()))
        }
        "key_dup" if layout.iter().filter(|f| matches!(f.kind, FieldKind::Text { is_key: true })).count() >= 2 => {
            let keys: Vec<&Field> = layout.iter().filter(|f| matches!(f.kind, FieldKind::Text { is_key: true })).collect();
            let a = *r.pick(&keys);
            // prefer a sibling-sized key so that the object ends up with two equal keys
            let same: Vec<&&Field> = keys.iter().filter(|k| k.len == a.len && k.off != a.off).collect();
            let b = if !same.is_empty() { **r.pick(&same) } else { *r.pick(&keys) };
            Fault::new(kind, ByteOp::Set(b.off, pristine[a.off..a.off + a.len.min(b.len)].to_vec()))
        }
        // the layout offers no such field: fall back to a blind byte substitution
        _ => Fault::new("byte_set", ByteOp::Set(off_near(r), vec![r.below(256) as u8])),
    }
}

fn fault_site(f: &Fault) -> usize {
    match &f.op {
        ByteOp::Truncate(k) => *k,
        ByteOp::Zero(a, _) | ByteOp::Ones(a, _) => *a,
        ByteOp::Flip(o, _) | ByteOp::Set(o, _) | ByteOp::Insert(o, _) | ByteOp::Delete(o, _) | ByteOp::Splice(o, _) => *o,
    }
}

const TEXT_POKES: &[&[u8]] = &[
    b"\\", b"\\u", b"\\u{", b"\\u12", b"\\ud800", b"\\udc00", b"\\ud800\\u", b"\"", b"{", b"}", b"[", b"]", b",", b":", b"-", b".", b"e", b"E+", b"0",
    b"\\u{0041", b"\\u{12", b"\\u{0041}", b"\\x0", b"\\x", b"\\x0C", b"\\t", b"\\r", b"\\udbff", b"\\uDBFF\\uDFFF", b"\\udbff\\udc00", b"\\ud83d\\ude00", b"9999999999999999999999", b"\\x0C", b"\\n", b" ", b"\n", b"\x00", b"\xff", b"\xc3", b"tru", b"nul", b"1e999", b"-0",
];

fn gen_text_fault(r: &mut Rng, n: usize) -> Fault {
    let n = n.max(1);
    match r.below(6) {
        0 => Fault::new("text_truncate", ByteOp::Truncate(r.idx(n))),
        1 => Fault::new("text_flip", ByteOp::Flip(r.idx(n), r.below(8) as u8)),
        2 => Fault::new("text_delete", ByteOp::Delete(r.idx(n), r.urange(1, 3))),
        3 => Fault::new("text_set", ByteOp::Set(r.idx(n), r.pick(TEXT_POKES).to_vec())),
        _ => Fault::new("text_insert", ByteOp::Insert(r.idx(n + 1), r.pick(TEXT_POKES).to_vec())),
    }
}

fn gen_raw(r: &mut Rng) -> (Vec<u8>, String) {
    if r.chance(1, 2) {
        let n = r.urange(0, 64);
        let mut b: Vec<u8> = (0..n).map(|_| r.below(256) as u8).collect();
        if n > 0 && r.chance(3, 4) {
            b[0] = *r.pick(&[0x20u8, 0x40, 0x80, 0x5b, 0x22, 0x31, 0x2d]);
            if n > 3 && r.chance(1, 2) {
                b[1] = 0;
                b[2] = 0;
                b[3] = r.below(6) as u8;
            }
        }
        (b, "random_bytes".into())
    } else {
        // soup of plausible header / entry words followed by payload bytes
        let mut b = vec![];
        let words = r.urange(1, 12);
        for i in 0..words {
            let w: u32 = if i == 0 || r.chance(1, 4) {
                *r.pick(&[0x2000_0000u32, 0x4000_0000, 0x8000_0000]) | if r.chance(3, 4) { r.below(5) as u32 } else { r.below(1 << 20) as u32 }
            } else {
                ((r.below(8) as u32) << 28) | if r.chance(3, 4) { r.below(12) as u32 } else { r.below(1 << 16) as u32 }
            };
            b.extend_from_slice(&w.to_be_bytes());
        }
        for _ in 0..r.urange(0, 24) {
            b.push(*r.pick(&[0x00u8, 0x40, 0x50, 0x60, 0x01, 0x61, 0xff, 0x80, 0x10, 0x20, 0x30]));
        }
        (b, "word_soup".into())
    }
}

/// Trees whose text rendering exercises the binary-misread hazards: long numbers,
/// strings whose fifth byte falls in each entry-type class, arrays.
fn gen_text_doc(r: &mut Rng) -> MVal {
    if r.chance(1, 25) {
        // one string literal with 255 / 256 / 257 / 300 escapes (a log message full of line breaks or quotes)
        let n = *r.pick(&[255usize, 256, 257, 300]);
        let s = MVal::Str(r.pick(&["\n", "\"", "\\", "\t", "é", "\u{10ffff}"]).repeat(n));
        return if r.chance(1, 2) { s } else { MVal::Arr(vec![MVal::U64(1), s]) };
    }
    match r.below(10) {
        0..=1 => MVal::U64(*r.pick(&[12345678u64, 1234567890, 99999999, 10000000, u64::MAX, 4294967296, 123456789012])),
        2 => MVal::I64(*r.pick(&[-1234567i64, -12345678, -99999999999, i64::MIN, -2147483649])),
        3 => MVal::f(*r.pick(&[1234.5678f64, -0.0001234, 1e300, 123456.789, 0.30000001])),
        4..=5 => {
            // quote + three bytes + a byte from each type-nibble class + tail
            let fifth = *r.pick(&["0", "A", "P", " ", "a", "p", "@", "Z", "!", "9", "é", "~"]);
            let head = *r.pick(&["abc", "   ", "a\\b", "12 ", "\u{7f}zz", "éa"]);
            MVal::Str(format!("{head}{fifth}{}", r.pick(&["ab", "abcdefgh", "", "\u{10000}", "0000"])))
        }
        _ => {
            let cfg = GenCfg { max_depth: r.urange(1, 4), max_width: r.urange(1, 5), nums: NumProfile::All, long: r.chance(1, 6), nonfinite: false, container_pct: 50 };
            gen::gen_doc(r, &cfg, 70)
        }
    }
}

impl Corrupt {
    fn exec_sweep(&self, doc: &MVal, cx: &mut Ctx) {
        let pristine = mval::encode(doc);
        let layout = mval::layout(&pristine);
        let n = pristine.len();
        let mk = |faults: Vec<Fault>| Case::Seq { doc: doc.clone(), faults };
        // 1. every proper prefix
        for cut in 0..n {
            cx.stats.inc("fault/truncate");
            let d = doc.clone();
            cx.check(&pristine[..cut], Clause::MustErr, &["truncate"], move || Case::Prefix { doc: d.clone(), cut });
        }
        let run = |cx: &mut Ctx, f: Fault| {
            let mut b = pristine.clone();
            f.apply(&mut b);
            if b == pristine {
                cx.stats.inc("fault_noop");
                return;
            }
            cx.stats.inc2("fault", &f.kind);
            if cx.stats.distinct.len() < 2_000_000 {
                cx.stats.distinct.insert(fnv_of(&b));
            }
            let kind = f.kind.clone();
            let mkc = &mk;
            cx.check(&b, Clause::Any, &[kind.as_str()], || mkc(vec![f.clone()]));
        };
        // 2. every single bit flip; 5. byte substitutions; 4. inserts / deletes at every offset
        for off in 0..n {
            for bit in 0..8u8 {
                run(cx, Fault::new("bit_flip", ByteOp::Flip(off, bit)));
            }
            for v in [0x00u8, 0x7f, 0x80, 0xff] {
                run(cx, Fault::new("byte_set", ByteOp::Set(off, vec![v])));
            }
            for v in [0x00u8, 0xff, 0x20, 0x80] {
                run(cx, Fault::new("insert", ByteOp::Insert(off, vec![v])));
            }
            run(cx, Fault::new("insert", ByteOp::Insert(off, vec![0, 0, 0, 0])));
            for k in 1..=4usize {
                run(cx, Fault::new("delete", ByteOp::Delete(off, k)));
            }
        }
        for v in [0x00u8, 0xff, 0x20, 0x80] {
            run(cx, Fault::new("insert", ByteOp::Insert(n, vec![v])));
        }
        // 3. every structural field x every listed replacement
        let word = |off: usize| u32::from_be_bytes([pristine[off], pristine[off + 1], pristine[off + 2], pristine[off + 3]]);
        let ents = entries(&layout);
        for f in &layout {
            match &f.kind {
                FieldKind::Header { count, .. } => {
                    let w = word(f.off);
                    let c = *count;
                    for nc in [0, c.wrapping_sub(1) & 0x1fff_ffff, c + 1, c * 2, 0x1fff_ffff, c + 100, 0x0100_0000 | c] {
                        run(cx, Fault::new("header_count", ByteOp::Set(f.off, ((w & 0xe000_0000) | nc).to_be_bytes().to_vec())));
                    }
                    for t in 0..8u32 {
                        run(cx, Fault::new("header_type", ByteOp::Set(f.off, ((w & 0x1fff_ffff) | (t << 29)).to_be_bytes().to_vec())));
                    }
                }
                FieldKind::Entry { role, ty, len, payload } => {
                    let w = word(f.off);
                    for t in 0..16u32 {
                        let kind = if *role == 2 { "key_retype" } else { "entry_type" };
                        run(cx, Fault::new(kind, ByteOp::Set(f.off, ((w & 0x0fff_ffff) | (t << 28)).to_be_bytes().to_vec())));
                    }
                    let rest = (n - payload) as u32;
                    let mut lens = vec![0, len.wrapping_sub(1) & 0x0fff_ffff, len + 1, rest, rest + 1, 0x0fff_ffff];
                    for s in ents.iter().take(6) {
                        if let FieldKind::Entry { len: sl, .. } = s.kind {
                            lens.push(sl);
                        }
                    }
                    for nl in lens {
                        run(cx, Fault::new("entry_len", ByteOp::Set(f.off, ((w & 0xf000_0000) | nl).to_be_bytes().to_vec())));
                    }
                    if *ty == 0x2000_0000 {
                        for wdt in 0..=10u32 {
                            run(cx, Fault::new("number_width", ByteOp::Set(f.off, ((w & 0xf000_0000) | wdt).to_be_bytes().to_vec())));
                        }
                    }
                }
                FieldKind::Number => {
                    let cur = pristine[f.off];
                    for hi in 0..16u8 {
                        run(cx, Fault::new("number_tag", ByteOp::Set(f.off, vec![(hi << 4) | (cur & 0x0f)])));
                    }
                    run(cx, Fault::new("number_tag", ByteOp::Set(f.off, vec![cur | 0x01])));
                }
                FieldKind::Text { .. } => {
                    if f.len > 0 {
                        let mut sites = vec![f.off, f.off + f.len - 1, f.off + f.len / 2];
                        sites.dedup();
                        for s in sites {
                            for p in UTF8_POKES {
                                run(cx, Fault::new("utf8_poke", ByteOp::Set(s, p.to_vec())));
                            }
                        }
                    }
                }
            }
        }
        // duplicated keys: every key payload copied over every other key payload of the same length
        let keys: Vec<&Field> = layout.iter().filter(|f| matches!(f.kind, FieldKind::Text { is_key: true }) && f.len > 0).collect();
        for a in &keys {
            for b in &keys {
                if a.off != b.off && a.len == b.len {
                    run(cx, Fault::new("key_dup", ByteOp::Set(b.off, pristine[a.off..a.off + a.len].to_vec())));
                }
            }
        }
        // lost page: zero-fill aligned windows
        for w in [4usize, 16, 64, 128] {
            let mut a = 0;
            while a < n {
                run(cx, Fault::new("zero_fill", ByteOp::Zero(a, a + w)));
                run(cx, Fault::new("ones_fill", ByteOp::Ones(a, a + w)));
                a += w;
            }
        }
    }

    fn exec_seq(&self, doc: &MVal, faults: &[Fault], cx: &mut Ctx) {
        let pristine = mval::encode(doc);
        let mut b = pristine.clone();
        let mut fired: Vec<&str> = vec![];
        for f in faults {
            let before = fnv_of(&b) ^ b.len() as u64;
            f.apply(&mut b);
            if (fnv_of(&b) ^ b.len() as u64) != before {
                fired.push(f.kind.as_str());
            }
        }
        if b == pristine {
            cx.stats.inc("fault_noop");
        }
        for k in &fired {
            cx.stats.inc2("fault", k);
        }
        cx.digest.bytes(&b);
        let is_prefix = b.len() < pristine.len() && pristine.starts_with(&b);
        if b != pristine && cx.stats.distinct.len() < 2_000_000 {
            cx.stats.distinct.insert(fnv_of(&b));
        }
        if faults.len() > 1 {
            cx.stats.inc("probe/multi_fault_sequence");
        }
        let cl = if is_prefix { Clause::MustErr } else { Clause::Any };
        let d = doc.clone();
        let fs = faults.to_vec();
        cx.check(&b, cl, &fired, move || Case::Seq { doc: d.clone(), faults: fs.clone() });
    }

    fn exec_text(&self, doc: &MVal, style: &TextStyle, cx: &mut Ctx) {
        let text = mval::to_text(doc, style);
        let bytes = text.as_bytes();
        cx.digest.bytes(bytes);
        cx.stats.inc("fault/text_row");
        if cx.stats.distinct.len() < 2_000_000 {
            cx.stats.distinct.insert(fnv_of(bytes));
        }
        let expect = doc.text_norm();
        let sub = || Case::Text { doc: doc.clone(), style: *style };
        cx.stats.steps += 2;
        match decode_once("from_slice", bytes) {
            Err(v) => cx.push(v, sub()),
            Ok((label, got)) => {
                cx.digest.str(&label);
                cx.stats.inc2("outcome", &format!("text_row:from_slice:{label}"));
                if got.as_ref() == Some(&expect) {
                    cx.stats.inc("probe/text_fallback_taken");
                } else {
                    let got_s = match &got {
                        Some(g) => format!("Ok({})", mval::to_json(g)),
                        None => label.clone(),
                    };
                    let first = bytes.first().copied().unwrap_or(0);
                    let shape = match doc {
                        MVal::Arr(_) => "array",
                        MVal::Obj(_) => "object",
                        MVal::Str(_) => "string",
                        MVal::Null | MVal::Bool(_) => "literal",
                        _ => "number",
                    };
                    cx.push(
                        Viol {
                            class: format!("O4:text_misread:{shape}"),
                            detail: format!(
                                "from_slice on valid JSON text {:?} (first byte {first:#04x}) returned {got_s}, expected {}",
                                truncate_str(&text, 80),
                                mval::to_json(&expect)
                            ),
                        },
                        sub(),
                    );
                }
            }
        }
        match decode_once("parse_jsonb", bytes) {
            Err(v) => cx.push(v, sub()),
            Ok((label, got)) => {
                cx.digest.str(&label);
                cx.stats.inc2("outcome", &format!("text_row:parse_jsonb:{label}"));
                // the binary-only decoder has no text fallback: a value out of JSON text is text misread as binary
                if let Some(g) = got {
                    cx.push(
                        Viol {
                            class: "O4:text_misread_as_binary:parse_jsonb".into(),
                            detail: format!("parse_jsonb on valid JSON text {:?} returned Ok({}): the text was read as a binary encoding", truncate_str(&text, 80), truncate_str(&mval::to_json(&g).to_string(), 120)),
                        },
                        sub(),
                    );
                }
            }
        }
    }
}

fn truncate_str(s: &str, n: usize) -> String {
    if s.chars().count() <= n {
        s.to_string()
    } else {
        let t: String = s.chars().take(n).collect();
        format!("{t}…")
    }
}

use crate::mval::{style_from_json, style_to_json};

impl Scenario for Corrupt {
    type Case = Case;
    fn id(&self) -> &'static str {
        "C10"
    }
    fn name(&self) -> &'static str {
        "corrupt"
    }
    fn level(&self) -> &'static str {
        "fault_enumeration"
    }
    fn tag(&self) -> u64 {
        0xC10
    }
    fn runs(&self, tier: &str) -> u64 {
        if tier == "thorough" {
            Self::sweeps("thorough") + 20_000_000
        } else {
            Self::sweeps("quick") + 1_000_000
        }
    }

    fn gen(&self, seed: u64, run: u64) -> Case {
        let mut r = Rng::for_run(seed, self.tag(), run);
        // The first runs of a batch are sweeps. Which runs those are depends only on the
        // run index, never on the tier, so a run index means the same case in both tiers.
        if run < Self::sweeps("quick") || (run >= 1_000_200 && run < 1_000_200 + Self::sweeps("thorough") - Self::sweeps("quick")) {
            let mut cfg = doc_cfg(&mut r);
            cfg.long = r.chance(1, 10);
            cfg.max_width = cfg.max_width.min(4);
            cfg.max_depth = cfg.max_depth.min(4);
            // a sweep is quadratic in the encoding size: keep swept documents small
            for _ in 0..50 {
                let doc = gen::gen_doc(&mut r, &cfg, 75);
                if mval::encode(&doc).len() <= 1200 {
                    return Case::Sweep { doc };
                }
            }
            return Case::Sweep { doc: gen::gen_scalar(&mut r, &cfg) };
        }
        match r.below(100) {
            0..=9 => {
                let doc = gen_text_doc(&mut r);
                let style = gen::gen_text_style(&mut r);
                let n = mval::to_text(&doc, &style).len();
                let nf = *r.pick(&[1usize, 1, 2, 3]);
                let faults = (0..nf).map(|_| gen_text_fault(&mut r, n)).collect();
                Case::TextFault { doc, style, faults }
            }
            10..=69 => {
                let cfg = doc_cfg(&mut r);
                // one run in twelve stores a narrow document 20-64 levels deep
                let doc = if r.chance(1, 12) { let d = r.urange(20, 64); gen::gen_deep_narrow(&mut r, d) } else { gen::gen_doc(&mut r, &cfg, 80) };
                let other = mval::encode(&gen::gen_doc(&mut r, &cfg, 80));
                let pristine = mval::encode(&doc);
                let layout = mval::layout(&pristine);
                // swarm: a random subset of fault kinds is enabled for this run
                let mut enabled: Vec<&str> = FAULT_KINDS.iter().copied().filter(|_| r.chance(1, 2)).collect();
                if enabled.is_empty() {
                    enabled.push(*r.pick(FAULT_KINDS));
                }
                let nf = *r.pick(&[1usize, 1, 1, 2, 2, 3, 4]);
                let mut faults: Vec<Fault> = vec![];
                for _ in 0..nf {
                    let kind = *r.pick(&enabled);
                    let near = faults.last().map(fault_site);
                    faults.push(gen_fault(&mut r, kind, &pristine, &layout, &other, near));
                }
                Case::Seq { doc, faults }
            }
            70..=84 => Case::Text { doc: gen_text_doc(&mut r), style: gen::gen_text_style(&mut r) },
            85..=94 => {
                let (bytes, origin) = gen_raw(&mut r);
                Case::Raw { bytes, origin }
            }
            _ => {
                let cfg = doc_cfg(&mut r);
                // one prefix run in 2,000 stores a document with a payload at the 2^24-byte boundary of the length field
                let doc = if r.chance(1, 2000) { gen::gen_huge_payload_bits(&mut r, &[24, 24, 25, 26, 27]) } else { gen::gen_doc(&mut r, &cfg, 80) };
                let n = mval::encode(&doc).len();
                Case::Prefix { doc, cut: r.idx(n) }
            }
        }
    }

    fn exec(&self, case: &Case, stats: &mut Stats) -> RunOut<Case> {
        let mut cx = Ctx { stats, digest: Fnv::new(), violations: vec![] };
        match case {
            Case::Sweep { doc } => {
                cx.stats.inc("runs/sweep");
                // harness self-check: the independent encoder and the library's agree on every stored document
                let lib = mval::to_value(doc).to_vec();
                let mine = mval::encode(doc);
                if lib != mine {
                    // which of the two encoders is wrong is C01's business, not C10's: recorded, and the sweep goes
                    // ahead on the independent encoding (the decoders are what is under test)
                    cx.stats.inc("probe/library_encoder_disagrees_with_independent_encoder_recorded_not_judged");
                }
                self.exec_sweep(doc, &mut cx);
                cx.stats.sample(3, || json!({"kind": "sweep", "doc": mval::to_json(doc), "stored_hex": mval::hex(&mine), "explored": "every prefix, bit flip, byte substitution, insert/delete, and structural field rewrite"}));
            }
            Case::Seq { doc, faults } => {
                cx.stats.inc("runs/sequence");
                self.exec_seq(doc, faults, &mut cx);
                if faults.len() >= 2 {
                    cx.stats.sample(6, || json!({"kind": "sequence", "doc": mval::to_json(doc), "faults": faults.iter().map(|f| f.to_json()).collect::<Vec<_>>()}));
                }
            }
            Case::Prefix { doc, cut } => {
                cx.stats.inc("runs/prefix");
                cx.stats.inc("fault/truncate");
                let b = mval::encode(doc);
                let cut = (*cut).min(b.len().saturating_sub(1));
                cx.stats.maxi("stored_bytes", b.len() as u64);
                if b.len() >= 1 << 24 {
                    // which bit of the 28-bit entry length field the stored payload sets
                    cx.stats.inc(&format!("huge_payload/length_bit_{}", usize::BITS - 1 - b.len().leading_zeros()));
                }
                cx.digest.bytes(&b[..cut]);
                let d = doc.clone();
                cx.check(&b[..cut], Clause::MustErr, &["truncate"], move || Case::Prefix { doc: d.clone(), cut });
            }
            Case::Text { doc, style } => {
                cx.stats.inc("runs/text_row");
                self.exec_text(doc, style, &mut cx);
                cx.stats.sample(8, || json!({"kind": "text_row", "text": truncate_str(&mval::to_text(doc, style), 120)}));
            }
            Case::TextFault { doc, style, faults } => {
                cx.stats.inc("runs/text_fault");
                let pristine = mval::to_text(doc, style).into_bytes();
                let mut b = pristine.clone();
                let mut fired: Vec<&str> = vec![];
                for f in faults {
                    let before = b.clone();
                    f.apply(&mut b);
                    if b != before {
                        fired.push(f.kind.as_str());
                    }
                }
                for k in &fired {
                    cx.stats.inc2("fault", k);
                }
                cx.digest.bytes(&b);
                if b != pristine && cx.stats.distinct.len() < 2_000_000 {
                    cx.stats.distinct.insert(fnv_of(&b));
                }
                let (d, st, fs) = (doc.clone(), *style, faults.clone());
                cx.check(&b, Clause::Any, &fired, move || Case::TextFault { doc: d.clone(), style: st, faults: fs.clone() });
                cx.stats.sample(12, || json!({"kind": "text_fault", "stored": String::from_utf8_lossy(&b).chars().take(100).collect::<String>()}));
            }
            Case::Raw { bytes, origin } => {
                cx.stats.inc("runs/raw");
                cx.stats.inc2("fault", origin);
                cx.digest.bytes(bytes);
                if cx.stats.distinct.len() < 2_000_000 {
                    cx.stats.distinct.insert(fnv_of(bytes));
                }
                let b = bytes.clone();
                let o = origin.clone();
                cx.check(bytes, Clause::Any, &[origin.as_str()], move || Case::Raw { bytes: b.clone(), origin: o.clone() });
                cx.stats.sample(10, || json!({"kind": origin, "hex": mval::hex(bytes)}));
            }
        }
        let placed = PLACED.with(|c| c.replace(0));
        cx.stats.add("probe/decode_on_row_ending_at_inaccessible_page", placed);
        RunOut { digest: cx.digest.finish(), violations: cx.violations }
    }

    fn shrink(&self, case: &Case) -> Vec<Case> {
        match case {
            Case::Sweep { doc } => shrink::shrink_tree(doc).into_iter().map(|d| Case::Sweep { doc: d }).collect(),
            Case::Seq { doc, faults } => {
                let mut out = vec![];
                for i in 0..faults.len() {
                    if faults.len() > 1 {
                        let mut f = faults.clone();
                        f.remove(i);
                        out.push(Case::Seq { doc: doc.clone(), faults: f });
                    }
                }
                // C10 quantifies over every byte string, so the stored bytes themselves are a sound case
                let mut b = mval::encode(doc);
                for f in faults {
                    f.apply(&mut b);
                }
                out.push(Case::Raw { bytes: b, origin: "minimised".into() });
                out
            }
            Case::Prefix { doc, cut } => {
                let mut out = vec![];
                // candidates are materialised: a document with a 2^24..2^27-byte payload gets a short list
                let huge = doc.approx_bytes() > (8 << 20);
                for d in shrink::shrink_tree(doc).into_iter().take(if huge { 5 } else { usize::MAX }) {
                    let n = mval::encode(&d).len();
                    if n == 0 {
                        continue;
                    }
                    let cuts = [(*cut).min(n - 1), n - 1, n / 2, 4.min(n - 1), 8.min(n - 1)];
                    for c in cuts.into_iter().take(if huge { 2 } else { 5 }) {
                        out.push(Case::Prefix { doc: d.clone(), cut: c });
                    }
                }
                out
            }
            Case::Text { doc, style } => {
                let mut out = vec![];
                let plain = TextStyle::default();
                if style.ws != 0 || style.escape_non_ascii || style.escape_slash || style.trail != 0 || style.lead != 0 || style.num_form != 0 {
                    out.push(Case::Text { doc: doc.clone(), style: plain });
                }
                for d in shrink::shrink_tree(doc) {
                    out.push(Case::Text { doc: d, style: *style });
                }
                out
            }
            Case::TextFault { doc, style, faults } => {
                let mut out = vec![];
                for i in 0..faults.len() {
                    if faults.len() > 1 {
                        let mut f = faults.clone();
                        f.remove(i);
                        out.push(Case::TextFault { doc: doc.clone(), style: *style, faults: f });
                    }
                }
                let mut b = mval::to_text(doc, style).into_bytes();
                for f in faults {
                    f.apply(&mut b);
                }
                out.push(Case::Raw { bytes: b, origin: "minimised".into() });
                out
            }
            Case::Raw { bytes, .. } => shrink::shrink_bytes(bytes).into_iter().map(|b| Case::Raw { bytes: b, origin: "minimised".into() }).collect(),
        }
    }

    fn to_json(&self, case: &Case) -> J {
        match case {
            Case::Sweep { doc } => json!({"mode": "sweep", "doc": mval::to_replay(doc), "doc_json": mval::to_json(doc)}),
            Case::Seq { doc, faults } => {
                let mut b = mval::encode(doc);
                let pristine = mval::hex(&b);
                for f in faults {
                    f.apply(&mut b);
                }
                json!({"mode": "sequence", "doc": mval::to_replay(doc), "doc_json": mval::to_json(doc), "pristine_hex": pristine,
                       "faults": faults.iter().map(|f| f.to_json()).collect::<Vec<_>>(), "stored_hex": mval::hex(&b)})
            }
            Case::Prefix { doc, cut } => {
                let b = mval::encode(doc);
                if b.len() > (1 << 20) {
                    // informational copies are left out for multi-megabyte documents ("doc" alone defines the case)
                    return json!({"mode": "prefix", "doc": mval::to_replay(doc), "cut": cut, "pristine_bytes": b.len()});
                }
                json!({"mode": "prefix", "doc": mval::to_replay(doc), "doc_json": mval::to_json(doc), "cut": cut, "pristine_hex": mval::hex(&b),
                       "stored_hex": mval::hex(&b[..(*cut).min(b.len())])})
            }
            Case::Text { doc, style } => json!({"mode": "text_row", "doc": mval::to_replay(doc), "style": style_to_json(style), "text": mval::to_text(doc, style)}),
            Case::TextFault { doc, style, faults } => {
                let mut b = mval::to_text(doc, style).into_bytes();
                for f in faults {
                    f.apply(&mut b);
                }
                json!({"mode": "text_fault", "doc": mval::to_replay(doc), "style": style_to_json(style), "text": mval::to_text(doc, style),
                       "faults": faults.iter().map(|f| f.to_json()).collect::<Vec<_>>(), "stored_hex": mval::hex(&b), "stored_lossy": String::from_utf8_lossy(&b)})
            }
            Case::Raw { bytes, origin } => json!({"mode": "raw", "origin": origin, "stored_hex": mval::hex(bytes)}),
        }
    }

    fn from_json(&self, j: &J) -> Result<Case, String> {
        let doc = || mval::from_replay(&j["doc"]);
        match j["mode"].as_str().unwrap_or("") {
            "sweep" => Ok(Case::Sweep { doc: doc()? }),
            "sequence" => {
                let faults = j["faults"].as_array().ok_or("faults")?.iter().map(Fault::from_json).collect::<Result<Vec<_>, _>>()?;
                Ok(Case::Seq { doc: doc()?, faults })
            }
            "prefix" => Ok(Case::Prefix { doc: doc()?, cut: j["cut"].as_u64().ok_or("cut")? as usize }),
            "text_row" => Ok(Case::Text { doc: doc()?, style: style_from_json(&j["style"]) }),
            "text_fault" => {
                let faults = j["faults"].as_array().ok_or("faults")?.iter().map(Fault::from_json).collect::<Result<Vec<_>, _>>()?;
                Ok(Case::TextFault { doc: doc()?, style: style_from_json(&j["style"]), faults })
            }
            "raw" => Ok(Case::Raw { bytes: mval::unhex(j["stored_hex"].as_str().ok_or("stored_hex")?)?, origin: j["origin"].as_str().unwrap_or("raw").to_string() }),
            m => Err(format!("unknown corrupt case mode {m:?}")),
        }
    }

    fn size(&self, case: &Case) -> J {
        match case {
            Case::Sweep { doc } => json!({"doc_nodes": doc.node_count()}),
            Case::Seq { doc, faults } => json!({"faults": faults.len(), "bytes": mval::encode(doc).len()}),
            Case::Prefix { doc, .. } => json!({"doc_nodes": doc.node_count(), "bytes": mval::encode(doc).len()}),
            Case::Text { doc, style } => json!({"doc_nodes": doc.node_count(), "text_bytes": mval::to_text(doc, style).len()}),
            Case::TextFault { doc, style, faults } => json!({"faults": faults.len(), "text_bytes": mval::to_text(doc, style).len()}),
            Case::Raw { bytes, .. } => json!({"bytes": bytes.len()}),
        }
    }

    fn rule(&self) -> String {
        "Cases: (a) exhaustive single-fault sweeps over stored documents (every proper prefix, every bit flip, byte substitutions, \
         1- and 4-byte inserts, 1..4-byte deletes at every offset, every header/entry/number/text field x the listed replacement values, \
         zero-filled windows); (b) seeded sequences of 1-4 faults with a per-run random subset of fault kinds enabled, later faults biased \
         towards the site of the previous one; (c) legacy JSON text rows rendered from generated trees, and such rows damaged by 1-3 byte faults (truncation, bit flip, deletion, inserted escape / bracket / number fragments); (d) random bytes and header/entry word soup; \
         (e) seeded single truncations. A case is non-trivial when the stored bytes differ from the pristine encoding; distinct = distinct stored byte \
         strings by 64-bit FNV-1a (set capped at 2M per worker)."
            .into()
    }

    fn assumptions(&self) -> Vec<String> {
        vec![
            "independent encoder/layout walker in sim/src/mval.rs written from README.md (number payload format from the constants it refers to)".into(),
            "O5 budget: a single allocation request above max(256 MiB, 4096 x input length) counts as an allocation failure on a memory-limited node".into(),
            "panics are observed with catch_unwind (panic=unwind); hangs by a 60 s watchdog; process death by the parent driver".into(),
            "sampling except for the per-document sweeps, which are exhaustive over their stated single-fault sets".into(),
        ]
    }

    fn coverage_extra(&self, stats: &Stats) -> serde_json::Map<String, J> {
        let mut m = serde_json::Map::new();
        m.insert("fault_kinds".into(), stats.group("fault"));
        m.insert("fault_noop_discarded".into(), json!(stats.get("fault_noop")));
        m.insert("outcome_table".into(), stats.group("outcome"));
        m.insert("run_kinds".into(), stats.group("runs"));
        m.insert("prefix_runs_on_documents_with_a_payload_of_2^b_bytes".into(), stats.group("huge_payload"));
        m.insert("decodes".into(), json!(stats.steps));
        m.insert(
            "components".into(),
            json!({"real": ["jsonb::from_slice", "jsonb::parse_jsonb", "jsonb::Number::decode (called directly on the row, its short suffixes and a (tag, width) table)", "jsonb text parser (fallback)"],
                   "simulated": ["block store holding encodings", "fault injector", "memory-limited node (accounting allocator)", "where the row sits in memory (every alignment; an inaccessible page right behind its last byte)", "caller"],
                   "stub": []}),
        );
        m
    }

    fn probes(&self) -> Vec<&'static str> {
        vec![
            "probe/ok_after_corruption",
            "probe/text_fallback_taken",
            "probe/multi_fault_sequence",
            "probe/err:InvalidJsonb",
            "probe/err:InvalidJsonbHeader",
            "probe/err:InvalidJsonbJEntry",
            "probe/err:InvalidJsonbNumber",
            "probe/err:InvalidUtf8",
            "probe/err:Syntax",
            "probe/decode_on_row_ending_at_inaccessible_page",
            "probe/number_direct_rows",
        ]
    }
}

impl Corrupt {
    fn sweeps(tier: &str) -> u64 {
        if tier == "thorough" {
            5000
        } else {
            200
        }
    }
}
