#!/usr/bin/env python3
"""Imports a property-breaking change written by a sub-agent into /verif/seeded/<id>/ AFTER confirming, in a scratch
worktree of /repo under /tmp, that (1) its demo passes on the unchanged HEAD, (2) the demo fails with the patch,
(3) the pinned baseline tests still pass with the patch. Nothing is imported unless all three hold.

usage: import_seeded.py <agent-worktree> <m-dir-name> <seeded-id> <property> [--needs "text"]
"""
import json, os, re, shutil, subprocess, sys

REPO = "/repo"
WT = "/tmp/wt-verify"

def sh(cmd, cwd=None, timeout=3600):
    env = dict(os.environ, CARGO_NET_OFFLINE="true")
    p = subprocess.run(cmd, cwd=cwd, env=env, stdout=subprocess.PIPE, stderr=subprocess.STDOUT, text=True, timeout=timeout)
    return p.returncode, p.stdout

def baseline_ok(out):
    want = json.load(open("/root/.vp/BASELINE.json"))["stable_pass"]
    ok = set(re.findall(r"^test (\S+) \.\.\. ok$", out, re.M))
    missing = []
    for t in want:
        short = t.split("::", 1)[1]
        if short.startswith("it::"):
            short = short[4:]
        if short not in ok:
            missing.append(t)
    return missing

def main():
    src_wt, mdir, sid, prop = sys.argv[1:5]
    needs = sys.argv[sys.argv.index("--needs") + 1] if "--needs" in sys.argv else ""
    m = f"{src_wt}/MUTATIONS/{mdir}"
    patch, demo = f"{m}/patch.diff", f"{m}/demo.rs"
    if not (os.path.isfile(patch) and os.path.isfile(demo)):
        print(f"REJECT {sid}: missing patch.diff or demo.rs"); return 1
    if not os.path.isdir(WT):
        rc, out = sh(["git", "-C", REPO, "worktree", "add", "--detach", "-f", WT, "HEAD"])
        if rc != 0:
            print(out); return 2
    sh(["git", "-C", WT, "checkout", "--detach", "-f", subprocess.check_output(["git", "-C", REPO, "rev-parse", "HEAD"], text=True).strip()])
    sh(["git", "-C", WT, "checkout", "--", "."])
    for f in os.listdir(f"{WT}/tests"):
        if f.startswith("demo_"):
            os.remove(f"{WT}/tests/{f}")
    name = "demo_" + re.sub(r"[^a-z0-9]", "_", sid.lower())
    shutil.copy(demo, f"{WT}/tests/{name}.rs")
    log = []
    # 1. demo passes on HEAD
    rc1, out1 = sh(["cargo", "test", "--offline", "--test", name], cwd=WT)
    log.append(f"HEAD: cargo test --offline --test {name} -> exit {rc1}")
    if rc1 != 0:
        print(out1[-1500:]); print(f"REJECT {sid}: demo does not pass on the unchanged HEAD"); return 1
    # 2. demo fails with the patch
    rc, out = sh(["git", "-C", WT, "apply", patch])
    if rc != 0:
        print(out); print(f"REJECT {sid}: patch does not apply"); return 1
    rc2, out2 = sh(["cargo", "test", "--offline", "--test", name], cwd=WT, timeout=900)
    log.append(f"patched: cargo test --offline --test {name} -> exit {rc2}")
    if rc2 == 0:
        print(f"REJECT {sid}: demo still passes with the patch"); return 1
    if "could not compile" in out2:
        print(out2[-1500:]); print(f"REJECT {sid}: does not compile"); return 1
    # 3. baseline suite passes with the patch
    os.remove(f"{WT}/tests/{name}.rs")
    rc3, out3 = sh(["cargo", "test", "--workspace", "--no-fail-fast", "--offline"], cwd=WT)
    missing = baseline_ok(out3)
    log.append(f"patched: cargo test --workspace --no-fail-fast --offline -> {71 - len(missing)}/71 stable baseline tests pass")
    sh(["git", "-C", WT, "checkout", "--", "."])
    if missing:
        print(f"REJECT {sid}: baseline tests no longer pass: {missing[:5]}"); return 1
    dst = f"/verif/seeded/{sid}"
    os.makedirs(dst, exist_ok=True)
    shutil.copy(patch, f"{dst}/patch.diff")
    shutil.copy(demo, f"{dst}/demo.rs")
    readme = open(f"{m}/README.md").read() if os.path.isfile(f"{m}/README.md") else ""
    open(f"{dst}/README.md", "w").write(readme)
    first_fail = re.search(r"(panicked at [^\n]*\n[^\n]*)", out2)
    json.dump({"property": prop, "origin": f"independent sub-agent given only the text of {prop} and a scratch worktree ({os.path.basename(src_wt)}/{mdir})",
               "needs": needs, "ran": log, "demo_failure": (first_fail.group(1)[:300] if first_fail else "see demo.rs")},
              open(f"{dst}/meta.json", "w"), indent=1)
    print(f"IMPORTED {sid}: " + "; ".join(log))
    return 0

sys.exit(main())
