//! Generic run loop: seeded runs spread over worker threads, panic capture,
//! watchdog, minimisation, replay files, known findings, evidence.

use crate::rng::Fnv;
use serde_json::{json, Value as J};
use std::cell::RefCell;
use std::collections::{BTreeMap, HashSet};
use std::panic;
use std::sync::atomic::{AtomicBool, AtomicU64, Ordering};
use std::sync::{Arc, Mutex};
use std::time::Instant;

pub const VERIF_DIR: &str = "/verif";

// ---------------------------------------------------------------------------
// panic capture
// ---------------------------------------------------------------------------

thread_local! {
    static LAST_PANIC: RefCell<Option<(String, String)>> = const { RefCell::new(None) };
    static QUIET: std::cell::Cell<bool> = const { std::cell::Cell::new(false) };
    /// (watchdog slot of this worker, batch start): lets long harness-side work (minimisation) renew its allowance
    static HEARTBEAT: RefCell<Option<(Arc<Vec<(AtomicU64, AtomicU64)>>, usize, Instant)>> = const { RefCell::new(None) };
}

/// Renews the calling worker's watchdog allowance. Called between minimisation candidates, so that each
/// candidate execution -- not the whole minimisation -- is what must finish within the hang limit.
pub fn heartbeat() {
    HEARTBEAT.with(|h| {
        if let Some((slots, w, t0)) = h.borrow().as_ref() {
            slots[*w].1.store(t0.elapsed().as_millis() as u64, Ordering::SeqCst);
        }
    });
}

pub fn install_panic_hook() {
    let default = panic::take_hook();
    panic::set_hook(Box::new(move |info| {
        let loc = info
            .location()
            .map(|l| format!("{}:{}", l.file(), l.line()))
            .unwrap_or_else(|| "?".into());
        let msg = if let Some(s) = info.payload().downcast_ref::<&str>() {
            s.to_string()
        } else if let Some(s) = info.payload().downcast_ref::<String>() {
            s.clone()
        } else {
            "<non-string panic payload>".into()
        };
        RAISED.with(|c| c.set(c.get() + 1));
        let quiet = QUIET.with(|q| q.get());
        if quiet {
            LAST_PANIC.with(|p| *p.borrow_mut() = Some((loc, msg)));
        } else {
            default(info);
        }
    }));
}

#[derive(Clone, Debug)]
pub struct PanicInfo {
    /// file:line with the path shortened to start at `src/`
    pub loc: String,
    pub msg: String,
}

thread_local! {
    /// panics raised on this thread (counted by the hook) / panics caught by `guard` on this thread
    static RAISED: std::cell::Cell<u64> = const { std::cell::Cell::new(0) };
    static CAUGHT: std::cell::Cell<u64> = const { std::cell::Cell::new(0) };
}

fn short_loc(loc: String) -> String {
    match loc.find("src/") {
        Some(i) if loc.contains("/repo/") || !loc.starts_with('/') => loc[i..].to_string(),
        _ => {
            let comps: Vec<&str> = loc.split('/').collect();
            comps[comps.len().saturating_sub(3)..].join("/")
        }
    }
}

/// Runs `f`, turning a panic into a value. The panic is silent. A panic that was raised while `f` ran and caught by
/// someone other than a `guard` -- i.e. swallowed inside the library with its own `catch_unwind` -- is reported as
/// a panic too: the call did panic, and in a `panic = "abort"` build that is the end of the process.
pub fn guard<T>(f: impl FnOnce() -> T) -> Result<T, PanicInfo> {
    let prev = QUIET.with(|q| q.replace(true));
    LAST_PANIC.with(|p| *p.borrow_mut() = None);
    let (raised0, caught0) = (RAISED.with(|c| c.get()), CAUGHT.with(|c| c.get()));
    let r = panic::catch_unwind(panic::AssertUnwindSafe(f));
    QUIET.with(|q| q.set(prev));
    if r.is_err() {
        CAUGHT.with(|c| c.set(c.get() + 1));
    }
    let swallowed = (RAISED.with(|c| c.get()) - raised0).saturating_sub(CAUGHT.with(|c| c.get()) - caught0);
    match r {
        Ok(_) if swallowed > 0 => {
            // accounted for here: enclosing guards must not report them again
            CAUGHT.with(|c| c.set(c.get() + swallowed));
            let (loc, msg) = LAST_PANIC.with(|p| p.borrow_mut().take()).unwrap_or(("?".into(), "?".into()));
            Err(PanicInfo { loc: short_loc(loc), msg: format!("{msg} [raised and caught inside the library: {swallowed} panic(s) swallowed by the call]") })
        }
        Ok(v) => Ok(v),
        Err(_) => {
            let (loc, msg) = LAST_PANIC
                .with(|p| p.borrow_mut().take())
                .unwrap_or(("?".into(), "?".into()));
            let loc = match loc.find("src/") {
                Some(i) if loc.contains("/repo/") || !loc.starts_with('/') => loc[i..].to_string(),
                _ => {
                    // keep the crate name for panics inside dependencies or std
                    let comps: Vec<&str> = loc.split('/').collect();
                    comps[comps.len().saturating_sub(3)..].join("/")
                }
            };
            Err(PanicInfo { loc, msg })
        }
    }
}

// ---------------------------------------------------------------------------
// statistics
// ---------------------------------------------------------------------------

#[derive(Default)]
pub struct Stats {
    pub counters: BTreeMap<String, u64>,
    pub distinct: HashSet<u64>,
    pub states: HashSet<u64>,
    pub samples: Vec<J>,
    pub steps: u64,
    pub evaluations: u64,
    pub max: BTreeMap<String, u64>,
    pub min: BTreeMap<String, u64>,
}

impl Stats {
    pub fn inc(&mut self, key: &str) {
        self.add(key, 1)
    }
    pub fn add(&mut self, key: &str, n: u64) {
        if let Some(c) = self.counters.get_mut(key) {
            *c += n;
        } else {
            self.counters.insert(key.to_string(), n);
        }
    }
    pub fn inc2(&mut self, a: &str, b: &str) {
        let mut k = String::with_capacity(a.len() + b.len() + 1);
        k.push_str(a);
        k.push('/');
        k.push_str(b);
        self.inc(&k);
    }
    pub fn maxi(&mut self, key: &str, v: u64) {
        let e = self.max.entry(key.to_string()).or_insert(0);
        if v > *e {
            *e = v;
        }
    }
    pub fn mini(&mut self, key: &str, v: u64) {
        let e = self.min.entry(key.to_string()).or_insert(u64::MAX);
        if v < *e {
            *e = v;
        }
    }
    pub fn sample(&mut self, cap: usize, f: impl FnOnce() -> J) {
        if self.samples.len() < cap {
            self.samples.push(f());
        }
    }
    pub fn merge(&mut self, o: Stats) {
        for (k, v) in o.counters {
            *self.counters.entry(k).or_insert(0) += v;
        }
        for (k, v) in o.max {
            let e = self.max.entry(k).or_insert(0);
            if v > *e {
                *e = v;
            }
        }
        for (k, v) in o.min {
            let e = self.min.entry(k).or_insert(u64::MAX);
            if v < *e {
                *e = v;
            }
        }
        self.distinct.extend(o.distinct);
        self.states.extend(o.states);
        self.steps += o.steps;
        self.evaluations += o.evaluations;
        for s in o.samples {
            if self.samples.len() < 12 {
                self.samples.push(s);
            }
        }
    }
    /// Counters under a `prefix/` as an object.
    pub fn group(&self, prefix: &str) -> J {
        let p = format!("{prefix}/");
        let mut m = serde_json::Map::new();
        for (k, v) in &self.counters {
            if let Some(rest) = k.strip_prefix(&p) {
                m.insert(rest.to_string(), json!(v));
            }
        }
        J::Object(m)
    }
    pub fn get(&self, key: &str) -> u64 {
        self.counters.get(key).copied().unwrap_or(0)
    }
}

// ---------------------------------------------------------------------------
// scenario interface
// ---------------------------------------------------------------------------

#[derive(Clone, Debug)]
pub struct Viol {
    /// stable violation class: oracle clause + operation + failure site
    pub class: String,
    pub detail: String,
}

pub struct RunOut<C> {
    pub digest: u64,
    /// violations found in this run, at most one per class; an explicit sub-case
    /// replaces the run's case when the run explored many sub-cases (sweeps)
    pub violations: Vec<(Viol, Option<C>)>,
}

impl<C> RunOut<C> {
    pub fn ok(digest: u64) -> Self {
        RunOut { digest, violations: vec![] }
    }
}

pub trait Scenario: Sync + Send + 'static {
    type Case: Clone + Send + Sync + 'static;
    fn id(&self) -> &'static str;
    fn name(&self) -> &'static str;
    fn level(&self) -> &'static str;
    fn tag(&self) -> u64;
    /// Whether some blocks of runs are thousands of runs long (see `LONG_BLOCK`); not for scenarios whose runs are
    /// child processes.
    fn long_blocks(&self) -> bool {
        true
    }
    fn runs(&self, tier: &str) -> u64;
    fn gen(&self, seed: u64, run: u64) -> Self::Case;
    fn exec(&self, case: &Self::Case, stats: &mut Stats) -> RunOut<Self::Case>;
    /// Strictly simpler candidates, most aggressive first.
    fn shrink(&self, case: &Self::Case) -> Vec<Self::Case>;
    fn to_json(&self, case: &Self::Case) -> J;
    fn from_json(&self, j: &J) -> Result<Self::Case, String>;
    /// Size measure for "minimised_from" reporting.
    fn size(&self, case: &Self::Case) -> J;
    /// Key compared with known_findings.json (default: the class itself).
    fn known_key(&self, class: &str) -> String {
        class.to_string()
    }
    fn rule(&self) -> String;
    fn assumptions(&self) -> Vec<String>;
    /// Extra keys for evidence.coverage computed from the merged statistics.
    fn coverage_extra(&self, stats: &Stats) -> serde_json::Map<String, J>;
    /// Probe counters that must not stay at zero (reported under probes_zero).
    fn probes(&self) -> Vec<&'static str>;
}

// ---------------------------------------------------------------------------
// known findings
// ---------------------------------------------------------------------------

#[derive(Clone, Debug)]
pub struct Known {
    pub property: String,
    pub key: String,
    pub status: String,
    pub what: String,
}

pub fn load_known() -> Result<Vec<Known>, String> {
    let path = format!("{VERIF_DIR}/known_findings.json");
    let txt = match std::fs::read_to_string(&path) {
        Ok(t) => t,
        Err(_) => return Ok(vec![]),
    };
    let j: J = serde_json::from_str(&txt).map_err(|e| format!("{path}: {e}"))?;
    let mut out = vec![];
    for f in j.get("findings").and_then(|f| f.as_array()).cloned().unwrap_or_default() {
        out.push(Known {
            property: f["property"].as_str().unwrap_or("").to_string(),
            key: f["key"].as_str().unwrap_or("").to_string(),
            status: f["status"].as_str().unwrap_or("").to_string(),
            what: f["what"].as_str().unwrap_or("").to_string(),
        });
    }
    Ok(out)
}

pub fn known_match<'a>(known: &'a [Known], property: &str, key: &str) -> Option<&'a Known> {
    known
        .iter()
        .find(|k| k.status == "known" && k.property == property && k.key == key)
}

// ---------------------------------------------------------------------------
// options
// ---------------------------------------------------------------------------

#[derive(Clone, Debug)]
pub struct Opts {
    pub tier: String,
    pub seed: u64,
    pub runs: Option<u64>,
    pub from: u64,
    pub threads: usize,
    pub announce: bool,
    pub write_evidence: bool,
    pub digest_out: Option<String>,
    pub replay_dir: String,
    pub evidence_dir: String,
    pub max_reports: usize,
    pub hang_secs: u64,
}

impl Opts {
    pub fn from_args(args: &[String]) -> Result<Opts, String> {
        let mut o = Opts {
            tier: std::env::var("VERIF_TIER").unwrap_or_else(|_| "quick".into()),
            seed: std::env::var("VERIF_SEED")
                .ok()
                .and_then(|s| s.trim().parse().ok())
                .unwrap_or(1),
            runs: None,
            from: 0,
            threads: std::thread::available_parallelism().map(|n| n.get()).unwrap_or(4).min(16),
            announce: false,
            write_evidence: true,
            digest_out: None,
            replay_dir: format!("{VERIF_DIR}/replays"),
            evidence_dir: format!("{VERIF_DIR}/evidence"),
            max_reports: 12,
            hang_secs: 60,
        };
        let mut i = 0;
        while i < args.len() {
            let a = args[i].as_str();
            let mut val = || -> Result<String, String> {
                i += 1;
                args.get(i).cloned().ok_or_else(|| format!("{a} needs a value"))
            };
            match a {
                "--tier" => o.tier = val()?,
                "--seed" => o.seed = val()?.parse().map_err(|e| format!("--seed: {e}"))?,
                "--runs" => o.runs = Some(val()?.parse().map_err(|e| format!("--runs: {e}"))?),
                "--from" => o.from = val()?.parse().map_err(|e| format!("--from: {e}"))?,
                "--threads" => o.threads = val()?.parse().map_err(|e| format!("--threads: {e}"))?,
                "--announce" => o.announce = true,
                "--no-evidence" => o.write_evidence = false,
                "--digest-out" => o.digest_out = Some(val()?),
                "--replay-dir" => o.replay_dir = val()?,
                "--evidence-dir" => o.evidence_dir = val()?,
                "--hang-secs" => o.hang_secs = val()?.parse().map_err(|e| format!("--hang-secs: {e}"))?,
                other => return Err(format!("unknown option {other}")),
            }
            i += 1;
        }
        if o.tier != "quick" && o.tier != "thorough" {
            return Err(format!("tier must be quick or thorough, got {}", o.tier));
        }
        Ok(o)
    }
}

// ---------------------------------------------------------------------------
// minimiser
// ---------------------------------------------------------------------------

/// Runs are executed in blocks of this many consecutive run indices; each block gets a thread of its own and
/// executes its runs in order. Whatever per-thread state the library keeps (scratch buffers, caches in
/// `thread_local!`s) therefore starts out fresh at every block boundary, and what a run sees is a function of
/// (seed, the runs before it in its block) -- never of how the scheduler spread runs over workers. A violation that
/// does not reproduce from its case alone is reported with the block prefix that led up to it (`history` in the
/// replay file), minimised, and replays by executing that history on one thread.
pub const BLOCK: u64 = 32;
/// ... except that the first `LONG_BLOCK` runs of every `SUPER_BLOCK` run indices form ONE block: a thread that lives
/// through thousands of runs (hundreds of thousands of library calls), for state that takes that long to build up
/// (a counter that wraps at 65,536 calls, a leak of one level per failed parse that bites at 512).
pub const SUPER_BLOCK: u64 = 65_536;
pub const LONG_BLOCK: u64 = 8_192;

/// Block id -> the run indices [lo, hi) it holds. A pure function of the id (and of whether the scenario has long blocks).
pub fn block_range(id: u64, long: bool) -> (u64, u64) {
    if !long {
        return (id * BLOCK, (id + 1) * BLOCK);
    }
    let per = 1 + (SUPER_BLOCK - LONG_BLOCK) / BLOCK;
    let (sup, j) = (id / per, id % per);
    if j == 0 {
        (sup * SUPER_BLOCK, sup * SUPER_BLOCK + LONG_BLOCK)
    } else {
        let lo = sup * SUPER_BLOCK + LONG_BLOCK + (j - 1) * BLOCK;
        (lo, lo + BLOCK)
    }
}

/// The block a run index belongs to.
pub fn block_of(run: u64, long: bool) -> u64 {
    if !long {
        return run / BLOCK;
    }
    let per = 1 + (SUPER_BLOCK - LONG_BLOCK) / BLOCK;
    let (sup, off) = (run / SUPER_BLOCK, run % SUPER_BLOCK);
    sup * per + if off < LONG_BLOCK { 0 } else { 1 + (off - LONG_BLOCK) / BLOCK }
}

/// Runs `f` on a thread of its own (256 MiB of stack) and returns its result: a fresh set of thread-locals.
pub fn isolated<R: Send>(f: impl FnOnce() -> R + Send) -> R {
    std::thread::scope(|sc| {
        let h = std::thread::Builder::new().stack_size(256 << 20).spawn_scoped(sc, f).expect("spawn run thread");
        match h.join() {
            Ok(r) => r,
            Err(e) => std::panic::resume_unwind(e),
        }
    })
}

fn first_with_class<S: Scenario>(s: &S, case: &S::Case, class: &str) -> Option<(Viol, S::Case)> {
    let mut scratch = Stats::default();
    let out = match isolated(|| guard(|| s.exec(case, &mut scratch))) {
        Ok(out) => out,
        Err(p) => RunOut { digest: 0, violations: vec![(Viol { class: format!("oracle_panic:{}", p.loc), detail: p.msg }, None)] },
    };
    for (v, sub) in out.violations {
        if v.class == class {
            return Some((v, sub.unwrap_or_else(|| case.clone())));
        }
    }
    None
}

/// Executes `cases` in order on one fresh thread; the violation of class `class` shown by the LAST one, if any.
fn history_with_class<S: Scenario>(s: &S, cases: &[S::Case], class: &str) -> Option<Viol> {
    isolated(|| {
        let mut scratch = Stats::default();
        let mut last = None;
        for c in cases {
            last = Some(match guard(|| s.exec(c, &mut scratch)) {
                Ok(out) => out.violations.into_iter().map(|(v, _)| v).collect::<Vec<_>>(),
                Err(p) => vec![Viol { class: format!("oracle_panic:{}", p.loc), detail: p.msg }],
            });
        }
        last.and_then(|vs| vs.into_iter().find(|v| v.class == class))
    })
}

/// Drops earlier runs from a history while the last one keeps showing the class (ddmin: halves, then single runs).
fn minimise_history<S: Scenario>(s: &S, mut cases: Vec<S::Case>, class: &str) -> (Vec<S::Case>, u64) {
    let mut steps = 0;
    let mut budget = 300u32;
    let t_dd = Instant::now();
    let mut chunk = (cases.len().saturating_sub(1) / 2).max(1);
    while cases.len() > 1 && budget > 0 && t_dd.elapsed().as_secs() < 150 {
        let mut progressed = false;
        let mut i = 0;
        while i + 1 < cases.len() && budget > 0 {
            let hi = (i + chunk).min(cases.len() - 1);
            let mut cand = cases[..i].to_vec();
            cand.extend_from_slice(&cases[hi..]);
            budget -= 1;
            heartbeat();
            if history_with_class(s, &cand, class).is_some() {
                cases = cand;
                steps += 1;
                progressed = true;
            } else {
                i = hi;
            }
        }
        if chunk == 1 && !progressed {
            break;
        }
        chunk = (chunk / 2).max(1);
    }
    // then the cases themselves, each with the scenario's own shrinker, while the last one keeps showing the class
    let started = Instant::now();
    let mut budget = 1500u32;
    'outer: loop {
        for k in (0..cases.len()).rev() {
            for cand in s.shrink(&cases[k]) {
                if budget == 0 || started.elapsed().as_secs() > 90 {
                    break 'outer;
                }
                budget -= 1;
                heartbeat();
                let mut h = cases.clone();
                h[k] = cand;
                if history_with_class(s, &h, class).is_some() {
                    cases = h;
                    steps += 1;
                    continue 'outer;
                }
            }
        }
        break;
    }
    (cases, steps)
}

/// Greedy shrinking that keeps the violation class fixed.
pub fn minimise<S: Scenario>(s: &S, case: S::Case, class: &str) -> (S::Case, Viol, u64) {
    let (mut viol, mut cur) = first_with_class(s, &case, class).expect("violation does not reproduce");
    let mut steps = 0u64;
    let mut budget = 4000u32;
    // wall time only bounds how small the replay gets, never the verdict
    let started = Instant::now();
    'outer: loop {
        for cand in s.shrink(&cur) {
            if budget == 0 || started.elapsed().as_secs() > 120 {
                break 'outer;
            }
            budget -= 1;
            heartbeat();
            if let Some((v, c)) = first_with_class(s, &cand, class) {
                cur = c;
                viol = v;
                steps += 1;
                continue 'outer;
            }
        }
        break;
    }
    (cur, viol, steps)
}

// ---------------------------------------------------------------------------
// replay files
// ---------------------------------------------------------------------------

pub fn write_replay(dir: &str, name: &str, j: &J) -> Result<String, String> {
    std::fs::create_dir_all(dir).map_err(|e| format!("{dir}: {e}"))?;
    let path = format!("{dir}/{name}.json");
    let txt = serde_json::to_string_pretty(j).unwrap();
    std::fs::write(&path, txt).map_err(|e| format!("{path}: {e}"))?;
    Ok(path)
}

/// Re-executes a replay file; returns process exit code. The case runs on its own thread under the
/// same 60 s watchdog as a batch, so that a `hang` replay reproduces as a hang instead of never returning.
pub fn replay<S: Scenario>(s: S, j: &J, timeout_s: u64) -> i32 {
    let class = j["class"].as_str().unwrap_or("").to_string();
    let case = match s.from_json(&j["case"]) {
        Ok(c) => c,
        Err(e) => {
            eprintln!("HARNESS-ERROR: cannot read case: {e}");
            return 2;
        }
    };
    let id = s.id();
    // a history: the runs that preceded the violating one on its thread, executed first, in order, on the same thread
    let mut earlier = vec![];
    if let Some(h) = j["history"].as_array() {
        for c in h {
            match s.from_json(c) {
                Ok(c) => earlier.push(c),
                Err(e) => {
                    eprintln!("HARNESS-ERROR: cannot read history: {e}");
                    return 2;
                }
            }
        }
    }
    let (tx, rx) = std::sync::mpsc::channel();
    let th = std::thread::Builder::new().stack_size(256 << 20).spawn(move || {
        let mut st = Stats::default();
        for c in &earlier {
            let _ = guard(|| s.exec(c, &mut st));
        }
        let viols = match guard(|| s.exec(&case, &mut st)) {
            Ok(out) => out.violations.into_iter().map(|(v, _)| v).collect::<Vec<Viol>>(),
            Err(p) => vec![Viol { class: format!("oracle_panic:{}", p.loc), detail: p.msg }],
        };
        let _ = tx.send(viols);
    });
    if th.is_err() {
        eprintln!("HARNESS-ERROR: cannot spawn replay thread");
        return 2;
    }
    let viols = match rx.recv_timeout(std::time::Duration::from_secs(timeout_s)) {
        Ok(v) => v,
        Err(std::sync::mpsc::RecvTimeoutError::Timeout) => {
            println!("REPLAY property={id} class=hang detail=no result after {timeout_s} s");
            if class == "hang" {
                println!("REPLAY-REPRODUCED property={id} class=hang");
            } else {
                println!("REPLAY-DIFFERENT property={id} expected-class={class}");
            }
            return 1;
        }
        Err(_) => {
            // the replay thread died without reporting: a panic outside a guarded call
            println!("REPLAY property={id} class=harness detail=replay thread ended without a result");
            return 2;
        }
    };
    if viols.is_empty() {
        println!("REPLAY property={id} result=no-violation expected-class={class}");
        return 0;
    }
    let mut same = false;
    for v in &viols {
        println!("REPLAY property={id} class={} detail={}", v.class, v.detail);
        if v.class == class {
            same = true;
        }
    }
    if same {
        println!("REPLAY-REPRODUCED property={id} class={class}");
    } else {
        println!("REPLAY-DIFFERENT property={id} expected-class={class}");
    }
    1
}

/// Executes a replay file in a child process (`sim replay-inner`) and returns the violation classes it shows:
/// the classes printed by the child, `hang` if it does not answer in time, `process_death` if it dies.
pub fn external_classes(file: &str, timeout_s: u64) -> Result<Vec<String>, String> {
    use std::io::Read;
    use std::process::{Command, Stdio};
    let exe = std::env::current_exe().map_err(|e| e.to_string())?;
    let mut child = Command::new(exe)
        .args(["replay-inner", file, "--timeout", &timeout_s.to_string()])
        .stdout(Stdio::piped())
        .stderr(Stdio::null())
        .spawn()
        .map_err(|e| format!("spawn: {e}"))?;
    let t0 = Instant::now();
    let status = loop {
        match child.try_wait() {
            Ok(Some(st)) => break Some(st),
            Ok(None) => {
                if t0.elapsed().as_secs() > timeout_s + 10 {
                    let _ = child.kill();
                    let _ = child.wait();
                    break None;
                }
                std::thread::sleep(std::time::Duration::from_millis(5));
            }
            Err(e) => return Err(format!("wait: {e}")),
        }
    };
    let mut out = String::new();
    if let Some(mut so) = child.stdout.take() {
        let _ = so.read_to_string(&mut out);
    }
    let mut classes: Vec<String> = out
        .lines()
        .filter_map(|l| l.strip_prefix("REPLAY property="))
        .filter_map(|l| l.split(" class=").nth(1))
        .map(|l| l.split(" detail=").next().unwrap_or("").to_string())
        .collect();
    match status {
        None => classes.push("hang".into()),
        Some(st) if !matches!(st.code(), Some(0) | Some(1) | Some(2)) => classes.push("process_death".into()),
        _ => {}
    }
    Ok(classes)
}

/// Greedy shrinking for violations that cannot be observed in-process (hang, process death): every candidate is
/// executed in a child process with a time limit. Bounded by `budget` candidates.
pub fn minimise_external<S: Scenario>(s: &S, case: S::Case, class: &str, dir: &str, seed: u64, run: u64, timeout_s: u64, mut budget: u32) -> (S::Case, u64) {
    let mut cur = case;
    let mut steps = 0u64;
    let tmp = format!("{dir}/.min-{}-{}.json", std::process::id(), run);
    'outer: loop {
        for cand in s.shrink(&cur) {
            if budget == 0 {
                break 'outer;
            }
            budget -= 1;
            let j = json!({"property": s.id(), "scenario": s.name(), "verif_seed": seed, "run": run, "class": class, "case": s.to_json(&cand)});
            if std::fs::create_dir_all(dir).is_err() || std::fs::write(&tmp, serde_json::to_string(&j).unwrap()).is_err() {
                break 'outer;
            }
            if let Ok(classes) = external_classes(&tmp, timeout_s) {
                if classes.iter().any(|c| c == class) {
                    cur = cand;
                    steps += 1;
                    continue 'outer;
                }
            }
        }
        break;
    }
    let _ = std::fs::remove_file(&tmp);
    (cur, steps)
}

// ---------------------------------------------------------------------------
// the run loop
// ---------------------------------------------------------------------------

struct Report {
    line: String,
    known: bool,
}

struct Shared {
    seen: Mutex<BTreeMap<String, u64>>,
    reports: Mutex<Vec<Report>>,
    digests: Mutex<Vec<(u64, u64)>>,
}

pub fn run_inner<S: Scenario>(s: S, o: &Opts) -> i32 {
    let t0 = Instant::now();
    let known = match load_known() {
        Ok(k) => k,
        Err(e) => {
            eprintln!("HARNESS-ERROR: {e}");
            return 2;
        }
    };
    let total = o.runs.unwrap_or_else(|| s.runs(&o.tier));
    let end = o.from + total;
    println!(
        "SIM scenario={} property={} tier={} VERIF_SEED={} runs={}..{} threads={}",
        s.name(), s.id(), o.tier, o.seed, o.from, end, o.threads
    );
    let s = Arc::new(s);
    let long = s.long_blocks();
    let next = Arc::new(AtomicU64::new(block_of(o.from, long)));
    let shared = Arc::new(Shared {
        seen: Mutex::new(BTreeMap::new()),
        reports: Mutex::new(vec![]),
        digests: Mutex::new(vec![]),
    });
    let done = Arc::new(AtomicBool::new(false));
    // set by the watchdog while it writes up a hang: the batch must not end "clean" under it
    let hang_seen = Arc::new(AtomicBool::new(false));
    let nthreads = o.threads.max(1);
    // watchdog slots: (run index + 1, start in ms since t0); 0 = idle
    let slots: Arc<Vec<(AtomicU64, AtomicU64)>> =
        Arc::new((0..nthreads).map(|_| (AtomicU64::new(0), AtomicU64::new(0))).collect());

    // watchdog: wall clock is read here and only here; it decides nothing but "hang"
    {
        let slots = slots.clone();
        let done = done.clone();
        let hang_seen = hang_seen.clone();
        let s = s.clone();
        let o = o.clone();
        std::thread::spawn(move || loop {
            std::thread::sleep(std::time::Duration::from_millis(500));
            if done.load(Ordering::SeqCst) {
                return;
            }
            let now = t0.elapsed().as_millis() as u64;
            for (run1, start) in slots.iter() {
                let r = run1.load(Ordering::SeqCst);
                let st = start.load(Ordering::SeqCst);
                if r != 0 && now.saturating_sub(st) > o.hang_secs * 1000 {
                    let run = r - 1;
                    hang_seen.store(true, Ordering::SeqCst);
                    let case = s.gen(o.seed, run);
                    let before = s.size(&case);
                    // candidates run in child processes with a 10 s limit each (a hang cannot be interrupted in-process)
                    let (min, steps) = minimise_external(&*s, case, "hang", &o.replay_dir, o.seed, run, 10, 40);
                    let j = json!({
                        "property": s.id(), "scenario": s.name(), "verif_seed": o.seed, "run": run,
                        "class": "hang", "case": s.to_json(&min),
                        "detail": format!("a result or an error is owed; no result after {} s (10 s for minimised candidates)", o.hang_secs),
                        "minimised_from": before, "minimised_to": s.size(&min), "shrink_steps": steps,
                    });
                    let path = write_replay(&o.replay_dir, &format!("{}-{}-{}-hang", s.id(), o.seed, run), &j)
                        .unwrap_or_else(|e| e);
                    println!("VIOLATION property={} replay={}", s.id(), path);
                    println!("  class=hang run={run}");
                    std::process::exit(1);
                }
            }
        });
    }

    let mut handles = vec![];
    for w in 0..nthreads {
        let s = s.clone();
        let next = next.clone();
        let shared = shared.clone();
        let slots = slots.clone();
        let o = o.clone();
        let known = known.clone();
        let h = std::thread::Builder::new()
            .name(format!("sim-{w}"))
            .stack_size(256 << 20)
            .spawn(move || {
                let mut stats = Stats::default();
                let mut digests = vec![];
                HEARTBEAT.with(|h| *h.borrow_mut() = Some((slots.clone(), w, t0)));
                loop {
                    let blk = next.fetch_add(1, Ordering::SeqCst);
                    let (lo, hi) = block_range(blk, long);
                    if lo >= end {
                        break;
                    }
                    let (lo, hi) = (lo.max(o.from), hi.min(end));
                    let (s, o, known, shared, slots, stats, digests) = (&s, &o, &known, &shared, &slots, &mut stats, &mut digests);
                    isolated(move || {
                    HEARTBEAT.with(|h| *h.borrow_mut() = Some((slots.clone(), w, t0)));
                    for run in lo..hi {
                    if o.announce {
                        use std::io::Write;
                        let so = std::io::stdout();
                        let mut l = so.lock();
                        let _ = writeln!(l, "RUN {run}");
                        let _ = l.flush();
                    }
                    slots[w].1.store(t0.elapsed().as_millis() as u64, Ordering::SeqCst);
                    slots[w].0.store(run + 1, Ordering::SeqCst);
                    let case = s.gen(o.seed, run);
                    // a panic of the oracle itself (the library drove it somewhere it assumed impossible) is a
                    // failed run with a replay, not the end of the batch
                    let out = match guard(|| s.exec(&case, stats)) {
                        Ok(out) => out,
                        Err(p) => RunOut {
                            digest: 0,
                            violations: vec![(Viol { class: format!("oracle_panic:{}", p.loc), detail: format!("the oracle panicked while judging this run at {}: {}", p.loc, p.msg) }, None)],
                        },
                    };
                    stats.evaluations += 1;
                    let mut d = Fnv::new();
                    d.u64(run);
                    d.u64(out.digest);
                    digests.push((run, d.finish()));
                    for (v, sub) in out.violations {
                        handle_violation(&**s, o, known, shared, run, lo, &case, v, sub);
                    }
                    slots[w].0.store(0, Ordering::SeqCst);
                    }
                    });
                }
                shared.digests.lock().unwrap().extend(digests);
                stats
            })
            .expect("spawn worker");
        handles.push(h);
    }
    let mut stats = Stats::default();
    for h in handles {
        match h.join() {
            Ok(st) => stats.merge(st),
            Err(_) => {
                eprintln!("HARNESS-ERROR: a worker thread panicked outside a guarded call");
                return 2;
            }
        }
    }
    done.store(true, Ordering::SeqCst);
    if hang_seen.load(Ordering::SeqCst) {
        // the watchdog is writing up a run that exceeded the limit (it may have finished meanwhile, very late);
        // the verdict is the watchdog's, which ends the process with exit code 1
        loop {
            std::thread::sleep(std::time::Duration::from_secs(1));
        }
    }
    let wall = t0.elapsed().as_secs_f64();

    let mut digests = std::mem::take(&mut *shared.digests.lock().unwrap());
    digests.sort();
    let mut all = Fnv::new();
    for (r, d) in &digests {
        all.u64(*r);
        all.u64(*d);
    }
    if let Some(p) = &o.digest_out {
        let mut txt = String::new();
        for (r, d) in &digests {
            txt.push_str(&format!("{r} {d:016x}\n"));
        }
        if let Err(e) = std::fs::write(p, txt) {
            eprintln!("HARNESS-ERROR: {p}: {e}");
            return 2;
        }
    }

    let reports = std::mem::take(&mut *shared.reports.lock().unwrap());
    let seen = shared.seen.lock().unwrap().clone();
    let mut unlisted = 0;
    let mut known_seen = vec![];
    for r in &reports {
        println!("{}", r.line);
        if r.known {
            known_seen.push(r.line.clone());
        } else {
            unlisted += 1;
        }
    }
    let total_viol: u64 = seen.values().sum();

    if o.write_evidence {
        let mut cov = serde_json::Map::new();
        cov.insert("evaluations".into(), json!(stats.evaluations));
        cov.insert("distinct_nontrivial".into(), json!(stats.distinct.len()));
        cov.insert("rule".into(), json!(s.rule()));
        cov.insert("samples".into(), J::Array(stats.samples.clone()));
        cov.insert("exhaustive".into(), json!(false));
        cov.insert("steps".into(), json!(stats.steps));
        cov.insert("states".into(), json!(stats.states.len()));
        cov.insert(
            "runs_per_hour".into(),
            json!(((stats.evaluations as f64) / wall.max(1e-9) * 3600.0) as u64),
        );
        cov.insert(
            "simulated_time".into(),
            json!("no clock exists in jsonb; simulated time is reported as steps (library calls executed)"),
        );
        cov.insert("batch_digest".into(), json!(format!("{:016x}", all.finish())));
        cov.insert("worker_threads".into(), json!(nthreads));
        let mut zero = vec![];
        let mut probes = serde_json::Map::new();
        for p in s.probes() {
            let v = stats.get(p);
            probes.insert(p.to_string(), json!(v));
            if v == 0 {
                zero.push(p.to_string());
            }
        }
        cov.insert("probes".into(), J::Object(probes));
        cov.insert("probes_zero".into(), json!(zero));
        let mx: serde_json::Map<String, J> = stats.max.iter().map(|(k, v)| (k.clone(), json!(v))).collect();
        cov.insert("maxima".into(), J::Object(mx));
        cov.insert("known_findings_seen".into(), json!(known_seen));
        cov.insert(
            "violation_classes".into(),
            J::Object(seen.iter().map(|(k, v)| (k.clone(), json!(v))).collect()),
        );
        for (k, v) in s.coverage_extra(&stats) {
            cov.insert(k, v);
        }
        let ev = json!({
            "property_id": s.id(),
            "tier": o.tier,
            "seed": o.seed,
            "level": s.level(),
            "coverage": J::Object(cov),
            "assumptions": s.assumptions(),
            "wall_s": (wall * 1000.0).round() / 1000.0,
            "violations": unlisted,
        });
        let _ = std::fs::create_dir_all(&o.evidence_dir);
        let path = format!("{}/{}.json", o.evidence_dir, s.id());
        if let Err(e) = std::fs::write(&path, serde_json::to_string_pretty(&ev).unwrap()) {
            eprintln!("HARNESS-ERROR: {path}: {e}");
            return 2;
        }
    }
    println!(
        "DONE property={} runs={} steps={} distinct={} findings_hit={} unlisted_classes={} digest={:016x} wall={:.1}s",
        s.id(), stats.evaluations, stats.steps, stats.distinct.len(), total_viol, unlisted, all.finish(), wall
    );
    if unlisted > 0 {
        1
    } else {
        0
    }
}

#[allow(clippy::too_many_arguments)]
fn handle_violation<S: Scenario>(
    s: &S,
    o: &Opts,
    known: &[Known],
    shared: &Shared,
    run: u64,
    block_start: u64,
    case: &S::Case,
    v: Viol,
    sub: Option<S::Case>,
) {
    let key = s.known_key(&v.class);
    let listed = known_match(known, s.id(), &key);
    {
        let mut seen = shared.seen.lock().unwrap();
        let n = seen.entry(v.class.clone()).or_insert(0);
        *n += 1;
        if *n > 1 {
            return;
        }
        // the cap bounds minimisation work; listed findings cost nothing and are always printed
        let unlisted = seen.keys().filter(|c| known_match(known, s.id(), &s.known_key(c)).is_none()).count();
        if listed.is_none() && unlisted > o.max_reports {
            shared.reports.lock().unwrap().push(Report {
                line: format!("VIOLATION property={} replay=<not written: more than {} distinct violation classes> class={}", s.id(), o.max_reports, v.class),
                known: false,
            });
            return;
        }
    }
    if let Some(k) = listed {
        shared.reports.lock().unwrap().push(Report {
            line: format!("KNOWN-FINDING: property={} {} [{}]", s.id(), k.what, k.key),
            known: true,
        });
        return;
    }
    let start = sub.unwrap_or_else(|| case.clone());
    let before = s.size(&start);
    if first_with_class(s, &start, &v.class).is_none() {
        // The case alone does not show it: the outcome depended on what earlier runs of this block left behind on
        // the thread. The case is then the history: the block's runs up to this one, in order, on one fresh thread.
        let mut hist: Vec<S::Case> = (block_start..run).map(|r| s.gen(o.seed, r)).collect();
        hist.push(case.clone());
        let n0 = hist.len();
        let (hist, steps, reproduced) = match history_with_class(s, &hist, &v.class) {
            Some(_) => {
                let (h, st) = minimise_history(s, hist, &v.class);
                (h, st, true)
            }
            None => (hist, 0, false),
        };
        let (last, earlier) = hist.split_last().unwrap();
        let v = if reproduced { history_with_class(s, &hist, &v.class).unwrap_or(v) } else { v };
        let j = json!({
            "property": s.id(), "scenario": s.name(), "verif_seed": o.seed, "run": run,
            "class": v.class,
            "detail": format!("{} [this run shows it only after the {} earlier run(s) in `history` have executed on the same thread: state is carried from call to call outside the documents{}]",
                v.detail, earlier.len(), if reproduced { "" } else { "; NOT reproduced when the block was re-executed: the state involved is not per-thread" }),
            "history": earlier.iter().map(|c| s.to_json(c)).collect::<Vec<_>>(),
            "case": s.to_json(last),
            "minimised_from": json!({"runs_in_history": n0, "last_run": before}), "minimised_to": json!({"runs_in_history": hist.len(), "last_run": s.size(last)}), "shrink_steps": steps,
            "replay": format!("/verif/check replay <this file>"),
        });
        let name = format!("{}-{}-{}-{:08x}-history", s.id(), o.seed, run, crate::rng::fnv_of(v.class.as_bytes()) as u32);
        let path = write_replay(&o.replay_dir, &name, &j).unwrap_or_else(|e| format!("<unwritable: {e}>"));
        shared.reports.lock().unwrap().push(Report {
            line: format!("VIOLATION property={} replay={}\n  class={}\n  detail={}", s.id(), path, v.class, j["detail"].as_str().unwrap_or("")),
            known: false,
        });
        return;
    }
    let (min, viol, steps) = minimise(s, start, &v.class);
    let j = json!({
        "property": s.id(),
        "scenario": s.name(),
        "verif_seed": o.seed,
        "run": run,
        "class": viol.class,
        "detail": viol.detail,
        "case": s.to_json(&min),
        "minimised_from": before,
        "minimised_to": s.size(&min),
        "shrink_steps": steps,
        "replay": format!("/verif/check replay <this file>"),
    });
    let name = format!("{}-{}-{}-{:08x}", s.id(), o.seed, run, crate::rng::fnv_of(viol.class.as_bytes()) as u32);
    let path = write_replay(&o.replay_dir, &name, &j).unwrap_or_else(|e| format!("<unwritable: {e}>"));
    shared.reports.lock().unwrap().push(Report {
        line: format!(
            "VIOLATION property={} replay={}\n  class={}\n  detail={}",
            s.id(), path, viol.class, viol.detail
        ),
        known: false,
    });
}

// ---------------------------------------------------------------------------
// outer driver: runs the batch in a child process so that the death of the process
// (stack exhaustion, allocation failure, abort) is an observation, not the end of the check
// ---------------------------------------------------------------------------

pub fn run_outer<S: Scenario>(s: S, scen: &str, o: &Opts, raw: &[String]) -> i32 {
    use std::process::{Command, Stdio};
    let exe = match std::env::current_exe() {
        Ok(e) => e,
        Err(e) => {
            eprintln!("HARNESS-ERROR: current_exe: {e}");
            return 2;
        }
    };
    let status = Command::new(&exe).arg("inner").arg(scen).args(raw).status();
    let status = match status {
        Ok(s) => s,
        Err(e) => {
            eprintln!("HARNESS-ERROR: cannot spawn inner run: {e}");
            return 2;
        }
    };
    if let Some(c) = status.code() {
        if c == 0 || c == 1 || c == 2 {
            return c;
        }
    }
    // The batch process died. Runs are deterministic, so re-run the same run indices in
    // single-threaded children that announce each run before executing it.
    println!("PROCESS-DEATH status={status:?}; locating the run");
    let total = o.runs.unwrap_or_else(|| s.runs(&o.tier));
    let parts = 16u64;
    let per = total.div_ceil(parts);
    let mut kids = vec![];
    for p in 0..parts {
        let from = o.from + p * per;
        if from >= o.from + total {
            break;
        }
        let n = per.min(o.from + total - from);
        let child = Command::new(&exe)
            .arg("inner")
            .arg(scen)
            .args(["--tier", &o.tier, "--seed", &o.seed.to_string(), "--from", &from.to_string(), "--runs", &n.to_string()])
            .args(["--threads", "1", "--announce", "--no-evidence", "--replay-dir", &o.replay_dir])
            .stdout(Stdio::piped())
            .stderr(Stdio::null())
            .spawn();
        match child {
            Ok(c) => kids.push(c),
            Err(e) => {
                eprintln!("HARNESS-ERROR: cannot spawn locate child: {e}");
                return 2;
            }
        }
    }
    let mut culprit: Option<(u64, String)> = None;
    for k in kids {
        let out = match k.wait_with_output() {
            Ok(o) => o,
            Err(e) => {
                eprintln!("HARNESS-ERROR: locate child: {e}");
                return 2;
            }
        };
        let dead = !matches!(out.status.code(), Some(0) | Some(1) | Some(2));
        if dead {
            let txt = String::from_utf8_lossy(&out.stdout);
            let last = txt.lines().rev().find_map(|l| l.strip_prefix("RUN ").and_then(|n| n.trim().parse::<u64>().ok()));
            if let Some(run) = last {
                if culprit.as_ref().map_or(true, |(r, _)| run < *r) {
                    culprit = Some((run, format!("{:?}", out.status)));
                }
            }
        }
    }
    match culprit {
        Some((run, st)) => {
            let case = s.gen(o.seed, run);
            let before = s.size(&case);
            let (min, steps) = minimise_external(&s, case, "process_death", &o.replay_dir, o.seed, run, 60, 60);
            let j = json!({
                "property": s.id(), "scenario": s.name(), "verif_seed": o.seed, "run": run,
                "class": "process_death", "detail": format!("the process executing this run died: {st}"),
                "case": s.to_json(&min), "minimised_from": before, "minimised_to": s.size(&min), "shrink_steps": steps,
            });
            let path = write_replay(&o.replay_dir, &format!("{}-{}-{}-death", s.id(), o.seed, run), &j).unwrap_or_else(|e| e);
            println!("VIOLATION property={} replay={}", s.id(), path);
            println!("  class=process_death run={run} status={st}");
            1
        }
        None => {
            eprintln!("HARNESS-ERROR: the batch process died ({status:?}) but no single run reproduces it");
            2
        }
    }
}
