//! Where a stored row sits in memory when it is handed to a decoder: one more thing the environment decides.
//! A heap block of its own starts 16-byte aligned and is followed by more mapped heap, so a decoder that assumes
//! word alignment, or reads a few bytes past the end of the row, gets away with both. A row sliced out of a column
//! buffer, or the last row of a memory-mapped column file, is neither aligned nor followed by anything.
//!
//! `with_row` copies the row so that it ENDS at the last byte before an inaccessible page (its start address is
//! then `-len mod 4096`, i.e. every alignment occurs) and runs the decode on that copy. Reading one byte past the
//! row is a segmentation fault: the death of the process, which the outer driver observes, locates and replays.
//! Rows above the region's capacity (1 MiB) are decoded where they are.

use std::cell::RefCell;
use std::ffi::c_void;

extern "C" {
    fn mmap(addr: *mut c_void, len: usize, prot: i32, flags: i32, fd: i32, off: i64) -> *mut c_void;
    fn mprotect(addr: *mut c_void, len: usize, prot: i32) -> i32;
    fn munmap(addr: *mut c_void, len: usize) -> i32;
}
const PROT_NONE: i32 = 0;
const PROT_READ: i32 = 1;
const PROT_WRITE: i32 = 2;
const MAP_PRIVATE: i32 = 2;
const MAP_ANONYMOUS: i32 = 0x20;
const PAGE: usize = 4096;
pub const CAP: usize = 1 << 20;

struct Region {
    base: *mut u8,
}

impl Region {
    fn new() -> Option<Region> {
        // SAFETY: a fresh anonymous private mapping; the last page is then made inaccessible.
        unsafe {
            let p = mmap(std::ptr::null_mut(), CAP + PAGE, PROT_READ | PROT_WRITE, MAP_PRIVATE | MAP_ANONYMOUS, -1, 0);
            if p as isize == -1 || p.is_null() {
                return None;
            }
            if mprotect((p as *mut u8).add(CAP) as *mut c_void, PAGE, PROT_NONE) != 0 {
                munmap(p, CAP + PAGE);
                return None;
            }
            Some(Region { base: p as *mut u8 })
        }
    }
}

impl Drop for Region {
    fn drop(&mut self) {
        // SAFETY: the mapping made in `new`, unmapped once.
        unsafe {
            munmap(self.base as *mut c_void, CAP + PAGE);
        }
    }
}

thread_local! {
    static REGION: RefCell<Option<Region>> = const { RefCell::new(None) };
}

/// Runs `f` on a copy of `bytes` that ends right before an inaccessible page. Returns whether the row was placed
/// (false: larger than the region, or the mapping could not be made -- `f` then ran on `bytes` itself).
pub fn with_row<R>(bytes: &[u8], f: impl FnOnce(&[u8]) -> R) -> (R, bool) {
    if bytes.len() > CAP {
        return (f(bytes), false);
    }
    let base = REGION.with(|r| {
        let mut r = r.borrow_mut();
        if r.is_none() {
            *r = Region::new();
        }
        r.as_ref().map(|x| x.base)
    });
    match base {
        None => (f(bytes), false),
        Some(base) => {
            // SAFETY: [base, base + CAP) is readable and writable and owned by this thread; the row fits.
            let row = unsafe {
                let start = base.add(CAP - bytes.len());
                std::ptr::copy_nonoverlapping(bytes.as_ptr(), start, bytes.len());
                std::slice::from_raw_parts(start as *const u8, bytes.len())
            };
            (f(row), true)
        }
    }
}
